//! Builders for TUF documents as JSON trees, signing over the harness' own canonical form, and a
//! declarative repository spec that renders to a file map.

use crate::json::{refcanon, render, sha256_hex, Style, J};
use crate::keys::{key, Enc};
use crate::obj;
use std::collections::BTreeMap;

pub const FAR: &str = "2100-01-01T00:00:00Z";

/// Percent-encode every byte outside [A-Za-z0-9_.~-] (the rule C16 states for role file names).
pub fn enc_name(name: &str) -> String {
    let mut s = String::new();
    for b in name.bytes() {
        if b.is_ascii_alphanumeric() || matches!(b, b'_' | b'.' | b'~' | b'-') {
            s.push(b as char);
        } else {
            s.push_str(&format!("%{b:02X}"));
        }
    }
    s
}

pub fn key_table(keys: &[(usize, Enc)]) -> J {
    J::O(keys
        .iter()
        .map(|(i, e)| (key(*i).keyid(*e), key(*i).key_json(*e)))
        .collect())
}

pub fn keyids(keys: &[(usize, Enc)]) -> J {
    J::A(keys.iter().map(|(i, e)| J::S(key(*i).keyid(*e))).collect())
}

#[derive(Clone, Debug)]
pub struct RoleKeys {
    pub keys: Vec<usize>,
    pub threshold: u64,
}

impl RoleKeys {
    pub fn one(k: usize) -> Self {
        RoleKeys {
            keys: vec![k],
            threshold: 1,
        }
    }
}

#[derive(Clone, Debug)]
pub struct RootKeys {
    pub root: RoleKeys,
    pub timestamp: RoleKeys,
    pub snapshot: RoleKeys,
    pub targets: RoleKeys,
}

impl RootKeys {
    pub fn simple() -> Self {
        RootKeys {
            root: RoleKeys::one(0),
            timestamp: RoleKeys::one(1),
            snapshot: RoleKeys::one(2),
            targets: RoleKeys::one(3),
        }
    }
    pub fn all_keys(&self) -> Vec<usize> {
        let mut v: Vec<usize> = Vec::new();
        for r in [&self.root, &self.timestamp, &self.snapshot, &self.targets] {
            for k in &r.keys {
                if !v.contains(k) {
                    v.push(*k);
                }
            }
        }
        v
    }
}

pub fn root_signed(version: u64, consistent: bool, expires: &str, rk: &RootKeys) -> J {
    let tbl: Vec<(usize, Enc)> = rk.all_keys().into_iter().map(|k| (k, Enc::Default)).collect();
    let role = |r: &RoleKeys| {
        obj! {
            "keyids" => J::A(r.keys.iter().map(|k| J::S(key(*k).id())).collect()),
            "threshold" => r.threshold,
        }
    };
    obj! {
        "_type" => "root",
        "spec_version" => "1.0.0",
        "consistent_snapshot" => consistent,
        "version" => version,
        "expires" => expires,
        "keys" => key_table(&tbl),
        "roles" => obj!{
            "root" => role(&rk.root),
            "snapshot" => role(&rk.snapshot),
            "targets" => role(&rk.targets),
            "timestamp" => role(&rk.timestamp),
        },
    }
}

pub fn metafile(version: u64, length: Option<u64>, sha256: Option<&str>) -> J {
    let mut m = Vec::new();
    if let Some(h) = sha256 {
        m.push(("hashes".to_string(), obj! {"sha256" => h}));
    }
    if let Some(l) = length {
        m.push(("length".to_string(), J::U(l)));
    }
    m.push(("version".to_string(), J::U(version)));
    J::O(m)
}

pub fn timestamp_signed(version: u64, expires: &str, snapshot_meta: J) -> J {
    obj! {
        "_type" => "timestamp",
        "spec_version" => "1.0.0",
        "version" => version,
        "expires" => expires,
        "meta" => obj!{"snapshot.json" => snapshot_meta},
    }
}

pub fn snapshot_signed(version: u64, expires: &str, meta: Vec<(String, J)>) -> J {
    obj! {
        "_type" => "snapshot",
        "spec_version" => "1.0.0",
        "version" => version,
        "expires" => expires,
        "meta" => J::O(meta),
    }
}

pub fn target_entry(content: &[u8], custom: Option<&J>) -> J {
    let mut m = vec![
        ("hashes".to_string(), obj! {"sha256" => sha256_hex(content)}),
        ("length".to_string(), J::U(content.len() as u64)),
    ];
    if let Some(c) = custom {
        m.push(("custom".to_string(), c.clone()));
    }
    J::O(m)
}

pub fn targets_signed(version: u64, expires: &str, targets: Vec<(String, J)>, delegations: Option<J>) -> J {
    let mut m = vec![
        ("_type".to_string(), J::from("targets")),
        ("spec_version".to_string(), J::from("1.0.0")),
        ("version".to_string(), J::U(version)),
        ("expires".to_string(), J::from(expires)),
        ("targets".to_string(), J::O(targets)),
    ];
    if let Some(d) = delegations {
        m.push(("delegations".to_string(), d));
    }
    J::O(m)
}

#[derive(Clone, Debug)]
pub enum Paths {
    Patterns(Vec<String>),
    HashPrefixes(Vec<String>),
}

pub fn delegated_role_entry(name: &str, keys: &[usize], threshold: u64, paths: &Paths, terminating: bool) -> J {
    let mut m = vec![
        ("name".to_string(), J::from(name)),
        (
            "keyids".to_string(),
            J::A(keys.iter().map(|k| J::S(key(*k).id())).collect()),
        ),
        ("threshold".to_string(), J::U(threshold)),
    ];
    match paths {
        Paths::Patterns(p) => m.push((
            "paths".to_string(),
            J::A(p.iter().map(|s| J::S(s.clone())).collect()),
        )),
        Paths::HashPrefixes(p) => m.push((
            "path_hash_prefixes".to_string(),
            J::A(p.iter().map(|s| J::S(s.clone())).collect()),
        )),
    }
    m.push(("terminating".to_string(), J::Bool(terminating)));
    J::O(m)
}

pub fn delegations(table_keys: &[usize], roles: Vec<J>) -> J {
    let tbl: Vec<(usize, Enc)> = table_keys.iter().map(|k| (*k, Enc::Default)).collect();
    obj! {"keys" => key_table(&tbl), "roles" => J::A(roles)}
}

/// The bytes a TUF signature covers for a `signed` object, by the harness' own canonicaliser.
pub fn signed_bytes(signed: &J) -> Vec<u8> {
    refcanon(signed).expect("refcanon of signed portion")
}

pub fn sig_entry(keyid: &str, sig: &[u8]) -> J {
    obj! {"keyid" => keyid, "sig" => hex::encode(sig)}
}

pub fn envelope(signed: J, sigs: Vec<J>) -> J {
    obj! {"signed" => signed, "signatures" => J::A(sigs)}
}

/// Sign `signed` with each key index (valid signatures, default key ids).
pub fn sign_with(signed: &J, keys: &[usize]) -> J {
    let msg = signed_bytes(signed);
    let sigs = keys
        .iter()
        .map(|k| sig_entry(&key(*k).id(), &crate::keys::cached_sign(*k, &msg)))
        .collect();
    envelope(signed.clone(), sigs)
}

/// Like `sign_with`, but signs the bytes the code under test derives when its canonical form
/// differs from the reference (only where signatures are not what is being judged and the document
/// contains exotic member names).
pub fn sign_with_sut_canon(signed: &J, keys: &[usize]) -> J {
    let msg = signed_bytes(signed);
    let sut = crate::json::olpc_canon(&signed.to_serde()).unwrap_or_else(|_| msg.clone());
    let sigs = keys
        .iter()
        .map(|k| sig_entry(&key(*k).id(), &crate::keys::cached_sign(*k, &sut)))
        .collect();
    envelope(signed.clone(), sigs)
}

// ---------------------------------------------------------------------------------------------

#[derive(Clone, Debug)]
pub struct TargetSpec {
    pub name: String,
    pub content: Vec<u8>,
    pub custom: Option<J>,
}

impl TargetSpec {
    pub fn new(name: &str, content: &[u8]) -> Self {
        TargetSpec {
            name: name.to_string(),
            content: content.to_vec(),
            custom: None,
        }
    }
}

#[derive(Clone, Debug)]
pub struct DelegSpec {
    pub name: String,
    pub keys: Vec<usize>,
    pub threshold: u64,
    /// keys that actually sign the role document (default: first `threshold` of keys)
    pub signers: Option<Vec<usize>>,
    pub paths: Paths,
    pub terminating: bool,
    pub version: u64,
    pub expires: String,
    pub targets: Vec<TargetSpec>,
    pub children: Vec<DelegSpec>,
}

impl DelegSpec {
    pub fn new(name: &str, k: usize, paths: Paths) -> Self {
        DelegSpec {
            name: name.to_string(),
            keys: vec![k],
            threshold: 1,
            signers: None,
            paths,
            terminating: false,
            version: 1,
            expires: FAR.to_string(),
            targets: vec![],
            children: vec![],
        }
    }
}

#[derive(Clone, Copy, Debug, PartialEq, Eq)]
pub struct Pin {
    pub hash: bool,
    pub length: bool,
}

#[derive(Clone, Debug)]
pub struct RepoSpec {
    pub consistent: bool,
    pub root_version: u64,
    pub ts_version: u64,
    pub snap_version: u64,
    pub tg_version: u64,
    pub root_expires: String,
    pub ts_expires: String,
    pub snap_expires: String,
    pub tg_expires: String,
    pub keys: RootKeys,
    pub targets: Vec<TargetSpec>,
    pub delegations: Vec<DelegSpec>,
    /// what the timestamp pins about the snapshot
    pub pin_snapshot: Pin,
    /// what the snapshot pins about targets.json and the delegated roles
    pub pin_targets: Pin,
    pub style: Style,
    /// add unknown members at the top level of the signed portion of timestamp, snapshot,
    /// targets and every delegated role
    pub extra_members: bool,
    /// keys listed in the top-level `delegations.keys` table although no delegated role names them
    pub spare_deleg_keys: Vec<usize>,
}

/// Unknown top-level members a role's signed portion carries when `extra_members` is set.
pub fn add_extras(signed: &mut J, role: &str) {
    signed.set(&format!("x-{role}-note"), format!("unknown member of {role}"));
    signed.set("x-number", 42u64);
    signed.set(
        "x-structured",
        obj! {"list" => J::A(vec![J::U(1), J::from("two"), J::Null]), "nested" => obj!{"deep" => true}},
    );
}

impl Default for RepoSpec {
    fn default() -> Self {
        RepoSpec {
            consistent: false,
            root_version: 1,
            ts_version: 1,
            snap_version: 1,
            tg_version: 1,
            root_expires: FAR.into(),
            ts_expires: FAR.into(),
            snap_expires: FAR.into(),
            tg_expires: FAR.into(),
            keys: RootKeys::simple(),
            targets: vec![TargetSpec::new("file1.txt", b"hello one"), TargetSpec::new("file2.txt", b"hello two!")],
            delegations: vec![],
            pin_snapshot: Pin { hash: true, length: true },
            pin_targets: Pin { hash: true, length: true },
            style: Style::Pretty,
            extra_members: false,
            spare_deleg_keys: vec![],
        }
    }
}

#[derive(Clone, Debug, Default)]
pub struct Built {
    /// URL path ("/metadata/…", "/targets/…") → bytes
    pub files: BTreeMap<String, Vec<u8>>,
    /// role name ("root", "timestamp", "snapshot", "targets", delegated names) → envelope
    pub docs: BTreeMap<String, J>,
    pub root_bytes: Vec<u8>,
}

pub fn meta_path(consistent: bool, version: u64, role: &str) -> String {
    let base = match role {
        "timestamp" => return "/metadata/timestamp.json".to_string(),
        "root" => return format!("/metadata/{version}.root.json"),
        "snapshot" | "targets" => role.to_string(),
        other => enc_name(other),
    };
    if consistent {
        format!("/metadata/{version}.{base}.json")
    } else {
        format!("/metadata/{base}.json")
    }
}

pub fn target_path(consistent: bool, name: &str, content: &[u8]) -> String {
    if consistent {
        format!("/targets/{}.{}", sha256_hex(content), name)
    } else {
        format!("/targets/{name}")
    }
}

fn build_deleg(
    d: &DelegSpec,
    spec: &RepoSpec,
    out: &mut Built,
    snap_meta: &mut Vec<(String, J)>,
) {
    // children first (their documents do not depend on the parent's)
    for c in &d.children {
        build_deleg(c, spec, out, snap_meta);
    }
    let delegs = if d.children.is_empty() {
        None
    } else {
        let mut tk: Vec<usize> = Vec::new();
        for c in &d.children {
            for k in &c.keys {
                if !tk.contains(k) {
                    tk.push(*k);
                }
            }
        }
        Some(delegations(
            &tk,
            d.children
                .iter()
                .map(|c| delegated_role_entry(&c.name, &c.keys, c.threshold, &c.paths, c.terminating))
                .collect(),
        ))
    };
    let mut signed = targets_signed(
        d.version,
        &d.expires,
        d.targets
            .iter()
            .map(|t| (t.name.clone(), target_entry(&t.content, t.custom.as_ref())))
            .collect(),
        delegs,
    );
    if spec.extra_members {
        add_extras(&mut signed, "delegated");
    }
    let signers: Vec<usize> = d
        .signers
        .clone()
        .unwrap_or_else(|| d.keys.iter().take(d.threshold as usize).copied().collect());
    let env = sign_with(&signed, &signers);
    let bytes = render(&env, spec.style);
    snap_meta.push((
        format!("{}.json", d.name),
        metafile(
            d.version,
            spec.pin_targets.length.then_some(bytes.len() as u64),
            spec.pin_targets.hash.then(|| sha256_hex(&bytes)).as_deref(),
        ),
    ));
    out.files.insert(meta_path(spec.consistent, d.version, &d.name), bytes);
    out.docs.insert(d.name.clone(), env);
    for t in &d.targets {
        out.files
            .insert(target_path(spec.consistent, &t.name, &t.content), t.content.clone());
    }
}

pub fn top_delegations(spec: &RepoSpec) -> Option<J> {
    if spec.delegations.is_empty() {
        return None;
    }
    let mut tk: Vec<usize> = Vec::new();
    for c in &spec.delegations {
        for k in &c.keys {
            if !tk.contains(k) {
                tk.push(*k);
            }
        }
    }
    for k in &spec.spare_deleg_keys {
        if !tk.contains(k) {
            tk.push(*k);
        }
    }
    Some(delegations(
        &tk,
        spec.delegations
            .iter()
            .map(|c| delegated_role_entry(&c.name, &c.keys, c.threshold, &c.paths, c.terminating))
            .collect(),
    ))
}

/// Render a complete, valid repository from a spec.
pub fn build(spec: &RepoSpec) -> Built {
    let mut out = Built::default();
    let mut snap_meta: Vec<(String, J)> = Vec::new();

    // root
    let root_signed_j = root_signed(spec.root_version, spec.consistent, &spec.root_expires, &spec.keys);
    let root_env = sign_with(
        &root_signed_j,
        &spec.keys.root.keys[..(spec.keys.root.threshold as usize).min(spec.keys.root.keys.len())],
    );
    let root_bytes = render(&root_env, spec.style);
    out.files
        .insert(meta_path(spec.consistent, spec.root_version, "root"), root_bytes.clone());
    out.root_bytes = root_bytes;
    out.docs.insert("root".into(), root_env);

    // delegated roles
    let mut deleg_meta: Vec<(String, J)> = Vec::new();
    for d in &spec.delegations {
        build_deleg(d, spec, &mut out, &mut deleg_meta);
    }

    // targets
    let mut tg_signed = targets_signed(
        spec.tg_version,
        &spec.tg_expires,
        spec.targets
            .iter()
            .map(|t| (t.name.clone(), target_entry(&t.content, t.custom.as_ref())))
            .collect(),
        top_delegations(spec),
    );
    if spec.extra_members {
        add_extras(&mut tg_signed, "targets");
    }
    let tg_env = sign_with(
        &tg_signed,
        &spec.keys.targets.keys[..(spec.keys.targets.threshold as usize).min(spec.keys.targets.keys.len())],
    );
    let tg_bytes = render(&tg_env, spec.style);
    snap_meta.push((
        "targets.json".to_string(),
        metafile(
            spec.tg_version,
            spec.pin_targets.length.then_some(tg_bytes.len() as u64),
            spec.pin_targets.hash.then(|| sha256_hex(&tg_bytes)).as_deref(),
        ),
    ));
    snap_meta.extend(deleg_meta);
    out.files
        .insert(meta_path(spec.consistent, spec.tg_version, "targets"), tg_bytes);
    out.docs.insert("targets".into(), tg_env);
    for t in &spec.targets {
        out.files
            .insert(target_path(spec.consistent, &t.name, &t.content), t.content.clone());
    }

    // snapshot
    let mut snap_signed = snapshot_signed(spec.snap_version, &spec.snap_expires, snap_meta);
    if spec.extra_members {
        add_extras(&mut snap_signed, "snapshot");
    }
    let snap_env = sign_with(
        &snap_signed,
        &spec.keys.snapshot.keys[..(spec.keys.snapshot.threshold as usize).min(spec.keys.snapshot.keys.len())],
    );
    let snap_bytes = render(&snap_env, spec.style);
    let snap_meta_entry = metafile(
        spec.snap_version,
        spec.pin_snapshot.length.then_some(snap_bytes.len() as u64),
        spec.pin_snapshot.hash.then(|| sha256_hex(&snap_bytes)).as_deref(),
    );
    out.files
        .insert(meta_path(spec.consistent, spec.snap_version, "snapshot"), snap_bytes);
    out.docs.insert("snapshot".into(), snap_env);

    // timestamp
    let mut ts_signed = timestamp_signed(spec.ts_version, &spec.ts_expires, snap_meta_entry);
    if spec.extra_members {
        add_extras(&mut ts_signed, "timestamp");
    }
    let ts_env = sign_with(
        &ts_signed,
        &spec.keys.timestamp.keys[..(spec.keys.timestamp.threshold as usize).min(spec.keys.timestamp.keys.len())],
    );
    out.files.insert(
        meta_path(spec.consistent, spec.ts_version, "timestamp"),
        render(&ts_env, spec.style),
    );
    out.docs.insert("timestamp".into(), ts_env);
    out
}
