//! In-memory `Transport` with request log, byte accounting, chunking policies, fault scripts,
//! an observer hook between chunks and a global request cap.

use bytes::Bytes;
use futures_core::Stream;
use std::collections::{BTreeMap, HashMap};
use std::pin::Pin;
use std::sync::{Arc, Mutex};
use std::task::{Context, Poll};
use tough::{Transport, TransportError, TransportErrorKind};
use url::Url;

pub const META_BASE: &str = "http://verif.invalid/metadata/";
pub const TARGETS_BASE: &str = "http://verif.invalid/targets/";

#[derive(Clone, Debug, PartialEq, Eq)]
pub enum Chunking {
    Whole,
    Fixed(usize),
    /// chunk sizes drawn from a seeded stream, 1..=max
    Random(u64, usize),
    /// fixed size chunks with an empty chunk in front of every real one
    WithEmpties(usize),
}

#[derive(Clone, Debug, PartialEq, Eq)]
pub enum Fault {
    None,
    /// flip bit `i` (bit index over the whole content)
    FlipBit(usize),
    Truncate(usize),
    /// append n bytes
    Extend(usize),
    Substitute(Vec<u8>),
    /// after the real content, keep sending chunks for ever
    Endless,
    /// transport error (kind Other) instead of chunk k (0-based)
    ErrorAtChunk(usize),
    /// the fetch itself fails with FileNotFound
    NotFound,
    /// the fetch itself fails with Other
    FetchError,
}

impl Fault {
    pub fn kind(&self) -> &'static str {
        match self {
            Fault::None => "none",
            Fault::FlipBit(_) => "bitflip",
            Fault::Truncate(_) => "truncate",
            Fault::Extend(_) => "extend",
            Fault::Substitute(_) => "substitute",
            Fault::Endless => "endless",
            Fault::ErrorAtChunk(_) => "error-at-chunk",
            Fault::NotFound => "not-found",
            Fault::FetchError => "fetch-error",
        }
    }
}

#[derive(Clone, Debug)]
pub struct Req {
    pub seq: usize,
    pub path: String,
    pub found: bool,
}

pub struct ObsEvent<'a> {
    pub path: &'a str,
    /// number of chunks already handed out for this stream
    pub chunks_done: usize,
    pub at_end: bool,
}

pub type Observer = Arc<dyn Fn(&ObsEvent<'_>) + Send + Sync>;

#[derive(Default)]
pub struct Inner {
    pub files: BTreeMap<String, Arc<Vec<u8>>>,
    pub faults: HashMap<String, Fault>,
    pub chunking: HashMap<String, Chunking>,
    pub default_chunking: Option<Chunking>,
    pub log: Vec<Req>,
    /// bytes handed out per path (sum over all requests of that path)
    pub pulled: BTreeMap<String, u64>,
    /// maximum bytes handed out by a single stream per path
    pub pulled_max_single: BTreeMap<String, u64>,
    pub max_requests: Option<usize>,
    /// requests below /metadata/ so far; without an explicit cap, METADATA_REQUEST_CAP of them end the
    /// transport's patience (a client that never stops asking must end in an error, not hang the check)
    pub meta_requests: usize,
    pub cap_hit: bool,
    pub observer: Option<Observer>,
    /// chunk size used by endless streams
    pub endless_chunk: usize,
    /// hard stop for endless streams (bytes), after which the stream errors; protects the harness
    pub endless_stop: u64,
    pub endless_stop_hit: bool,
    /// documents handed out, in order, for metadata requests that match no file (used where the
    /// harness must not assume how a name is mapped to a file name); (label, bytes)
    pub fallback_queue: std::collections::VecDeque<(String, Arc<Vec<u8>>)>,
    /// (requested path, label) of every fallback answer
    pub fallback_served: Vec<(String, String)>,
}

pub const METADATA_REQUEST_CAP: usize = 20_000;

#[derive(Clone)]
pub struct MemTransport {
    pub inner: Arc<Mutex<Inner>>,
}

impl std::fmt::Debug for MemTransport {
    fn fmt(&self, f: &mut std::fmt::Formatter<'_>) -> std::fmt::Result {
        write!(f, "MemTransport")
    }
}

impl MemTransport {
    pub fn new(files: BTreeMap<String, Vec<u8>>) -> Self {
        let mut inner = Inner::default();
        inner.files = files.into_iter().map(|(k, v)| (k, Arc::new(v))).collect();
        inner.endless_chunk = 4096;
        inner.endless_stop = 64 * 1024 * 1024;
        MemTransport {
            inner: Arc::new(Mutex::new(inner)),
        }
    }
    pub fn set_file(&self, path: &str, data: Vec<u8>) {
        self.inner.lock().unwrap().files.insert(path.to_string(), Arc::new(data));
    }
    pub fn remove_file(&self, path: &str) {
        self.inner.lock().unwrap().files.remove(path);
    }
    pub fn set_fault(&self, path: &str, f: Fault) {
        self.inner.lock().unwrap().faults.insert(path.to_string(), f);
    }
    pub fn clear_faults(&self) {
        self.inner.lock().unwrap().faults.clear();
    }
    pub fn set_chunking(&self, path: &str, c: Chunking) {
        self.inner.lock().unwrap().chunking.insert(path.to_string(), c);
    }
    pub fn set_default_chunking(&self, c: Chunking) {
        self.inner.lock().unwrap().default_chunking = Some(c);
    }
    pub fn set_observer(&self, o: Option<Observer>) {
        self.inner.lock().unwrap().observer = o;
    }
    pub fn set_max_requests(&self, n: Option<usize>) {
        self.inner.lock().unwrap().max_requests = n;
    }
    pub fn log(&self) -> Vec<Req> {
        self.inner.lock().unwrap().log.clone()
    }
    pub fn log_paths(&self) -> Vec<String> {
        self.inner.lock().unwrap().log.iter().map(|r| r.path.clone()).collect()
    }
    pub fn clear_log(&self) {
        let mut g = self.inner.lock().unwrap();
        g.log.clear();
        g.pulled.clear();
        g.pulled_max_single.clear();
        g.cap_hit = false;
        g.endless_stop_hit = false;
    }
    pub fn pulled(&self, path: &str) -> u64 {
        self.inner.lock().unwrap().pulled.get(path).copied().unwrap_or(0)
    }
    pub fn pulled_max_single(&self, path: &str) -> u64 {
        self.inner
            .lock()
            .unwrap()
            .pulled_max_single
            .get(path)
            .copied()
            .unwrap_or(0)
    }
    pub fn meta_url() -> Url {
        Url::parse(META_BASE).unwrap()
    }
    pub fn targets_url() -> Url {
        Url::parse(TARGETS_BASE).unwrap()
    }
}

fn chunk_sizes(total: usize, c: &Chunking) -> Vec<usize> {
    let mut v = Vec::new();
    // an empty resource yields NO chunk at all (as a file or HTTP body of length 0 does), except
    // under the policy that deliberately interleaves empty chunks
    match c {
        Chunking::Whole => {
            if total > 0 {
                v.push(total);
            }
        }
        Chunking::Fixed(n) => {
            let n = (*n).max(1);
            let mut left = total;
            while left > 0 {
                let t = left.min(n);
                v.push(t);
                left -= t;
            }
        }
        Chunking::Random(seed, max) => {
            let mut r = crate::rng::Rng::new(*seed);
            let mut left = total;
            while left > 0 {
                let t = (1 + r.usize((*max).max(1))).min(left);
                v.push(t);
                left -= t;
            }
        }
        Chunking::WithEmpties(n) => {
            let n = (*n).max(1);
            let mut left = total;
            v.push(0);
            while left > 0 {
                let t = left.min(n);
                v.push(t);
                v.push(0);
                left -= t;
            }
        }
    }
    v
}

enum Item {
    Data(Bytes),
    Err,
}

struct MemStream {
    shared: Arc<Mutex<Inner>>,
    path: String,
    url: String,
    items: std::collections::VecDeque<Item>,
    endless: bool,
    done_chunks: usize,
    handed: u64,
    finished: bool,
}

impl Stream for MemStream {
    type Item = Result<Bytes, TransportError>;
    fn poll_next(mut self: Pin<&mut Self>, _cx: &mut Context<'_>) -> Poll<Option<Self::Item>> {
        let this = &mut *self;
        if this.finished {
            return Poll::Ready(None);
        }
        // observer runs outside the lock (it may look at the transport itself)
        let obs = this.shared.lock().unwrap().observer.clone();
        let at_end = this.items.is_empty() && !this.endless;
        if let Some(o) = obs {
            o(&ObsEvent {
                path: &this.path,
                chunks_done: this.done_chunks,
                at_end,
            });
        }
        let item = match this.items.pop_front() {
            Some(i) => Some(i),
            None if this.endless => {
                let mut g = this.shared.lock().unwrap();
                if this.handed >= g.endless_stop {
                    g.endless_stop_hit = true;
                    Some(Item::Err)
                } else {
                    let n = g.endless_chunk.max(1);
                    Some(Item::Data(Bytes::from(vec![0x41u8; n])))
                }
            }
            None => None,
        };
        match item {
            None => {
                this.finished = true;
                Poll::Ready(None)
            }
            Some(Item::Err) => {
                this.finished = true;
                Poll::Ready(Some(Err(TransportError::new_with_cause(
                    TransportErrorKind::Other,
                    &this.url,
                    "injected transport error",
                ))))
            }
            Some(Item::Data(b)) => {
                this.done_chunks += 1;
                this.handed += b.len() as u64;
                let mut g = this.shared.lock().unwrap();
                *g.pulled.entry(this.path.clone()).or_insert(0) += b.len() as u64;
                let e = g.pulled_max_single.entry(this.path.clone()).or_insert(0);
                if this.handed > *e {
                    *e = this.handed;
                }
                Poll::Ready(Some(Ok(b)))
            }
        }
    }
}

#[async_trait::async_trait]
impl Transport for MemTransport {
    async fn fetch(
        &self,
        url: Url,
    ) -> Result<Pin<Box<dyn Stream<Item = Result<Bytes, TransportError>> + Send>>, TransportError> {
        let path = url.path().to_string();
        let full = match url.query() {
            Some(q) => format!("{path}?{q}"),
            None => path.clone(),
        };
        let full = match url.fragment() {
            Some(f) => format!("{full}#{f}"),
            None => full,
        };
        let mut g = self.inner.lock().unwrap();
        let seq = g.log.len();
        if full.starts_with("/metadata/") {
            g.meta_requests += 1;
        }
        let over_default = g.max_requests.is_none() && g.meta_requests > METADATA_REQUEST_CAP;
        if let Some(cap) = g.max_requests.or(over_default.then_some(0)) {
            if seq >= cap {
                g.cap_hit = true;
                g.log.push(Req {
                    seq,
                    path: full.clone(),
                    found: false,
                });
                return Err(TransportError::new_with_cause(
                    TransportErrorKind::Other,
                    url.as_str(),
                    "request cap of the harness reached",
                ));
            }
        }
        let fault = g.faults.get(&full).cloned().unwrap_or(Fault::None);
        let mut data = g.files.get(&full).cloned();
        if data.is_none() && !g.fallback_queue.is_empty() && full.starts_with("/metadata/") {
            // never answer the probe for the next root version from the queue
            let last = full.rsplit('/').next().unwrap_or("");
            let is_root_probe = last
                .strip_suffix(".root.json")
                .map_or(false, |v| !v.is_empty() && v.chars().all(|c| c.is_ascii_digit()));
            if !is_root_probe {
                let (label, bytes) = g.fallback_queue.pop_front().unwrap();
                g.fallback_served.push((full.clone(), label));
                // from now on the same request gets the same answer
                g.files.insert(full.clone(), bytes.clone());
                data = Some(bytes);
            }
        }
        let found = data.is_some() && fault != Fault::NotFound;
        g.log.push(Req {
            seq,
            path: full.clone(),
            found,
        });
        if fault == Fault::FetchError {
            return Err(TransportError::new_with_cause(
                TransportErrorKind::Other,
                url.as_str(),
                "injected fetch error",
            ));
        }
        let Some(data) = data else {
            return Err(TransportError::new(TransportErrorKind::FileNotFound, url.as_str()));
        };
        if fault == Fault::NotFound {
            return Err(TransportError::new(TransportErrorKind::FileNotFound, url.as_str()));
        }
        let chunking = g
            .chunking
            .get(&full)
            .cloned()
            .or_else(|| g.default_chunking.clone())
            .unwrap_or(Chunking::Whole);
        drop(g);

        let mut content: Vec<u8> = (*data).clone();
        let mut endless = false;
        let mut err_at: Option<usize> = None;
        match &fault {
            Fault::FlipBit(i) => {
                if !content.is_empty() {
                    let i = i % (content.len() * 8);
                    content[i / 8] ^= 1 << (i % 8);
                }
            }
            Fault::Truncate(n) => content.truncate(*n),
            Fault::Extend(n) => content.extend(std::iter::repeat(0x5a).take(*n)),
            Fault::Substitute(v) => content = v.clone(),
            Fault::Endless => endless = true,
            Fault::ErrorAtChunk(k) => err_at = Some(*k),
            _ => {}
        }
        let sizes = chunk_sizes(content.len(), &chunking);
        let mut items = std::collections::VecDeque::new();
        let all = Bytes::from(content);
        let mut off = 0;
        for (i, s) in sizes.iter().enumerate() {
            if err_at == Some(i) {
                items.push_back(Item::Err);
                break;
            }
            items.push_back(Item::Data(all.slice(off..off + s)));
            off += s;
        }
        if let Some(k) = err_at {
            if k >= sizes.len() {
                items.push_back(Item::Err);
            }
        }
        Ok(Box::pin(MemStream {
            shared: self.inner.clone(),
            path: full,
            url: url.to_string(),
            items,
            endless,
            done_chunks: 0,
            handed: 0,
            finished: false,
        }))
    }
}
