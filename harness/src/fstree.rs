//! Recursive snapshots of directory trees and their differences.

use crate::json::sha256_hex;
use std::collections::BTreeMap;
use std::path::{Path, PathBuf};

#[derive(Clone, Debug, PartialEq, Eq)]
pub enum Entry {
    Dir,
    File { size: u64, sha256: String },
    Symlink { target: String },
    Other,
}

pub type Tree = BTreeMap<PathBuf, Entry>;

pub fn snapshot(root: &Path) -> Tree {
    let mut t = Tree::new();
    fn rec(p: &Path, t: &mut Tree) {
        let Ok(rd) = std::fs::read_dir(p) else { return };
        for e in rd.flatten() {
            let path = e.path();
            let Ok(md) = std::fs::symlink_metadata(&path) else { continue };
            let ft = md.file_type();
            if ft.is_symlink() {
                let target = std::fs::read_link(&path)
                    .map(|p| p.to_string_lossy().to_string())
                    .unwrap_or_default();
                t.insert(path, Entry::Symlink { target });
            } else if ft.is_dir() {
                t.insert(path.clone(), Entry::Dir);
                rec(&path, t);
            } else if ft.is_file() {
                let data = std::fs::read(&path).unwrap_or_default();
                t.insert(
                    path,
                    Entry::File {
                        size: md.len(),
                        sha256: sha256_hex(&data),
                    },
                );
            } else {
                t.insert(path, Entry::Other);
            }
        }
    }
    rec(root, &mut t);
    t
}

#[derive(Clone, Debug, Default)]
pub struct Diff {
    pub created: Vec<(PathBuf, Entry)>,
    pub modified: Vec<(PathBuf, Entry, Entry)>,
    pub removed: Vec<(PathBuf, Entry)>,
}

pub fn diff(before: &Tree, after: &Tree) -> Diff {
    let mut d = Diff::default();
    for (p, e) in after {
        match before.get(p) {
            None => d.created.push((p.clone(), e.clone())),
            Some(b) if b != e => d.modified.push((p.clone(), b.clone(), e.clone())),
            _ => {}
        }
    }
    for (p, e) in before {
        if !after.contains_key(p) {
            d.removed.push((p.clone(), e.clone()));
        }
    }
    d
}

impl Diff {
    /// created/modified/removed entries that are not directories
    pub fn non_dir_changes(&self) -> Vec<PathBuf> {
        let mut v = Vec::new();
        for (p, e) in &self.created {
            if *e != Entry::Dir {
                v.push(p.clone());
            }
        }
        for (p, _, _) in &self.modified {
            v.push(p.clone());
        }
        for (p, e) in &self.removed {
            if *e != Entry::Dir {
                v.push(p.clone());
            }
        }
        v
    }
}
