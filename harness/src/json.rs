//! Own JSON value type with ordered members, renderers, the reference OLPC canonicaliser
//! (`refcanon`, written from the specification text, not from olpc-cjson) and a parser of canonical bytes.

use std::fmt::Write as _;

#[derive(Clone, Debug, PartialEq)]
pub enum J {
    Null,
    Bool(bool),
    U(u64),
    I(i64),
    F(f64),
    S(String),
    A(Vec<J>),
    O(Vec<(String, J)>),
}

#[macro_export]
macro_rules! obj {
    ($($k:expr => $v:expr),* $(,)?) => {
        $crate::json::J::O(vec![$(($k.to_string(), $crate::json::J::from($v))),*])
    };
}

impl From<&str> for J {
    fn from(s: &str) -> J {
        J::S(s.to_string())
    }
}
impl From<String> for J {
    fn from(s: String) -> J {
        J::S(s)
    }
}
impl From<&String> for J {
    fn from(s: &String) -> J {
        J::S(s.clone())
    }
}
impl From<u64> for J {
    fn from(v: u64) -> J {
        J::U(v)
    }
}
impl From<usize> for J {
    fn from(v: usize) -> J {
        J::U(v as u64)
    }
}
impl From<i64> for J {
    fn from(v: i64) -> J {
        if v >= 0 {
            J::U(v as u64)
        } else {
            J::I(v)
        }
    }
}
impl From<bool> for J {
    fn from(v: bool) -> J {
        J::Bool(v)
    }
}
impl From<Vec<J>> for J {
    fn from(v: Vec<J>) -> J {
        J::A(v)
    }
}
impl From<Vec<(String, J)>> for J {
    fn from(v: Vec<(String, J)>) -> J {
        J::O(v)
    }
}

impl J {
    pub fn get(&self, k: &str) -> Option<&J> {
        match self {
            J::O(m) => m.iter().find(|(kk, _)| kk == k).map(|(_, v)| v),
            _ => None,
        }
    }
    pub fn get_mut(&mut self, k: &str) -> Option<&mut J> {
        match self {
            J::O(m) => m.iter_mut().find(|(kk, _)| kk == k).map(|(_, v)| v),
            _ => None,
        }
    }
    pub fn at(&self, k: &str) -> &J {
        self.get(k).unwrap_or_else(|| panic!("missing member {k}"))
    }
    pub fn at_mut(&mut self, k: &str) -> &mut J {
        self.get_mut(k)
            .unwrap_or_else(|| panic!("missing member {k}"))
    }
    /// Set (replace first occurrence or append).
    pub fn set(&mut self, k: &str, v: impl Into<J>) {
        let v = v.into();
        match self {
            J::O(m) => {
                if let Some(e) = m.iter_mut().find(|(kk, _)| kk == k) {
                    e.1 = v;
                } else {
                    m.push((k.to_string(), v));
                }
            }
            _ => panic!("set on non-object"),
        }
    }
    pub fn remove(&mut self, k: &str) -> Option<J> {
        match self {
            J::O(m) => {
                let pos = m.iter().position(|(kk, _)| kk == k)?;
                Some(m.remove(pos).1)
            }
            _ => None,
        }
    }
    pub fn members(&self) -> &Vec<(String, J)> {
        match self {
            J::O(m) => m,
            _ => panic!("not an object"),
        }
    }
    pub fn members_mut(&mut self) -> &mut Vec<(String, J)> {
        match self {
            J::O(m) => m,
            _ => panic!("not an object"),
        }
    }
    pub fn items(&self) -> &Vec<J> {
        match self {
            J::A(a) => a,
            _ => panic!("not an array"),
        }
    }
    pub fn items_mut(&mut self) -> &mut Vec<J> {
        match self {
            J::A(a) => a,
            _ => panic!("not an array"),
        }
    }
    pub fn as_str(&self) -> Option<&str> {
        match self {
            J::S(s) => Some(s),
            _ => None,
        }
    }
    pub fn as_u64(&self) -> Option<u64> {
        match self {
            J::U(u) => Some(*u),
            J::I(i) if *i >= 0 => Some(*i as u64),
            _ => None,
        }
    }

    /// Follow a path; segments are member names or array indices (decimal).
    pub fn path(&self, p: &[PathSeg]) -> Option<&J> {
        let mut cur = self;
        for s in p {
            cur = match (s, cur) {
                (PathSeg::K(k), J::O(_)) => cur.get(k)?,
                (PathSeg::I(i), J::A(a)) => a.get(*i)?,
                _ => return None,
            };
        }
        Some(cur)
    }
    pub fn path_mut(&mut self, p: &[PathSeg]) -> Option<&mut J> {
        let mut cur = self;
        for s in p {
            cur = match (s, cur) {
                (PathSeg::K(k), c @ J::O(_)) => c.get_mut(k)?,
                (PathSeg::I(i), J::A(a)) => a.get_mut(*i)?,
                _ => return None,
            };
        }
        Some(cur)
    }

    /// Enumerate all paths (pre-order), including the root (empty path).
    pub fn all_paths(&self) -> Vec<Vec<PathSeg>> {
        fn rec(j: &J, cur: &mut Vec<PathSeg>, out: &mut Vec<Vec<PathSeg>>) {
            out.push(cur.clone());
            match j {
                J::O(m) => {
                    for (k, v) in m {
                        cur.push(PathSeg::K(k.clone()));
                        rec(v, cur, out);
                        cur.pop();
                    }
                }
                J::A(a) => {
                    for (i, v) in a.iter().enumerate() {
                        cur.push(PathSeg::I(i));
                        rec(v, cur, out);
                        cur.pop();
                    }
                }
                _ => {}
            }
        }
        let mut out = Vec::new();
        rec(self, &mut Vec::new(), &mut out);
        out
    }

    pub fn to_serde(&self) -> serde_json::Value {
        use serde_json::Value as V;
        match self {
            J::Null => V::Null,
            J::Bool(b) => V::Bool(*b),
            J::U(u) => V::from(*u),
            J::I(i) => V::from(*i),
            J::F(f) => serde_json::Number::from_f64(*f).map_or(V::Null, V::Number),
            J::S(s) => V::String(s.clone()),
            J::A(a) => V::Array(a.iter().map(J::to_serde).collect()),
            J::O(m) => V::Object(m.iter().map(|(k, v)| (k.clone(), v.to_serde())).collect()),
        }
    }
    pub fn from_serde(v: &serde_json::Value) -> J {
        use serde_json::Value as V;
        match v {
            V::Null => J::Null,
            V::Bool(b) => J::Bool(*b),
            V::Number(n) => {
                if let Some(u) = n.as_u64() {
                    J::U(u)
                } else if let Some(i) = n.as_i64() {
                    J::I(i)
                } else {
                    J::F(n.as_f64().unwrap_or(f64::NAN))
                }
            }
            V::String(s) => J::S(s.clone()),
            V::Array(a) => J::A(a.iter().map(J::from_serde).collect()),
            V::Object(m) => J::O(m.iter().map(|(k, v)| (k.clone(), J::from_serde(v))).collect()),
        }
    }
    pub fn parse(bytes: &[u8]) -> Result<J, String> {
        serde_json::from_slice::<serde_json::Value>(bytes)
            .map(|v| J::from_serde(&v))
            .map_err(|e| e.to_string())
    }
}

#[derive(Clone, Debug, PartialEq, Eq, Hash)]
pub enum PathSeg {
    K(String),
    I(usize),
}

pub fn path_class(p: &[PathSeg]) -> String {
    // class string: indices and hex-ish / dynamic keys collapsed
    let mut s = String::new();
    for seg in p {
        match seg {
            PathSeg::K(k) => {
                s.push('.');
                if k.len() >= 32 && k.chars().all(|c| c.is_ascii_hexdigit()) {
                    s.push_str("<keyid>");
                } else {
                    s.push_str(k);
                }
            }
            PathSeg::I(_) => s.push_str("[]"),
        }
    }
    s
}

// ---------------------------------------------------------------------------------------------
// Ordinary JSON rendering (what gets served as a file)

#[derive(Clone, Copy, Debug, PartialEq, Eq)]
pub enum Style {
    Compact,
    Pretty,
    /// ASCII characters in strings respelt as \uXXXX (every 2nd eligible char)
    UnicodeEscapes,
}

fn esc_str(out: &mut String, s: &str, uesc: bool) {
    out.push('"');
    let mut n = 0usize;
    for c in s.chars() {
        match c {
            '"' => out.push_str("\\\""),
            '\\' => out.push_str("\\\\"),
            '\n' => out.push_str("\\n"),
            '\r' => out.push_str("\\r"),
            '\t' => out.push_str("\\t"),
            c if (c as u32) < 0x20 => {
                let _ = write!(out, "\\u{:04x}", c as u32);
            }
            c if uesc && c.is_ascii_alphanumeric() => {
                n += 1;
                if n % 2 == 0 {
                    let _ = write!(out, "\\u{:04x}", c as u32);
                } else {
                    out.push(c);
                }
            }
            c => out.push(c),
        }
    }
    out.push('"');
}

pub fn render(j: &J, style: Style) -> Vec<u8> {
    fn rec(j: &J, style: Style, ind: usize, out: &mut String) {
        let pretty = style == Style::Pretty;
        let uesc = style == Style::UnicodeEscapes;
        match j {
            J::Null => out.push_str("null"),
            J::Bool(b) => out.push_str(if *b { "true" } else { "false" }),
            J::U(u) => {
                let _ = write!(out, "{u}");
            }
            J::I(i) => {
                let _ = write!(out, "{i}");
            }
            J::F(f) => {
                let _ = write!(out, "{f:?}");
            }
            J::S(s) => esc_str(out, s, uesc),
            J::A(a) => {
                out.push('[');
                for (i, v) in a.iter().enumerate() {
                    if i > 0 {
                        out.push(',');
                    }
                    if pretty {
                        out.push('\n');
                        out.push_str(&"  ".repeat(ind + 1));
                    }
                    rec(v, style, ind + 1, out);
                }
                if pretty && !a.is_empty() {
                    out.push('\n');
                    out.push_str(&"  ".repeat(ind));
                }
                out.push(']');
            }
            J::O(m) => {
                out.push('{');
                for (i, (k, v)) in m.iter().enumerate() {
                    if i > 0 {
                        out.push(',');
                    }
                    if pretty {
                        out.push('\n');
                        out.push_str(&"  ".repeat(ind + 1));
                    }
                    esc_str(out, k, uesc);
                    out.push(':');
                    if pretty {
                        out.push(' ');
                    }
                    rec(v, style, ind + 1, out);
                }
                if pretty && !m.is_empty() {
                    out.push('\n');
                    out.push_str(&"  ".repeat(ind));
                }
                out.push('}');
            }
        }
    }
    let mut s = String::new();
    rec(j, style, 0, &mut s);
    s.into_bytes()
}

/// Recursively shuffle member order of every object (deterministic from rng).
pub fn shuffle_members(j: &mut J, rng: &mut crate::rng::Rng) {
    match j {
        J::O(m) => {
            rng.shuffle(m);
            for (_, v) in m.iter_mut() {
                shuffle_members(v, rng);
            }
        }
        J::A(a) => {
            for v in a.iter_mut() {
                shuffle_members(v, rng);
            }
        }
        _ => {}
    }
}

// ---------------------------------------------------------------------------------------------
// NFC for the harness' atom alphabet only.

/// The only combining sequences the harness generates, with their composed forms.
pub const COMPOSE: &[(&str, &str)] = &[
    ("e\u{0301}", "\u{00e9}"),
    ("A\u{030a}", "\u{00c5}"),
    ("o\u{0308}", "\u{00f6}"),
    ("\u{1100}\u{1161}", "\u{ac00}"),
];

/// Characters known to be NFC-inert starters which the harness uses.
fn inert(c: char) -> bool {
    let u = c as u32;
    u < 0x80
        || matches!(
            c,
            '\u{00e9}'
                // compatibility characters: NFC leaves them alone (only NFKC/NFKD fold them)
                | '\u{fb01}'
                | '\u{00b2}'
                | '\u{ff11}'
                | '\u{2122}'
                | '\u{2160}'
                | '\u{00c5}'
                | '\u{00f6}'
                | '\u{00df}'
                | '\u{00e5}'
                | '\u{ac00}'
                | '\u{1f37a}'
                | '\u{00b0}'
                | '\u{00e4}'
                | '\u{00fc}'
                | '\u{4e2d}'
                | '\u{6587}'
        )
}

/// NFC of a string drawn from the harness alphabet. Err if the string contains something whose
/// normal form the harness does not know by construction.
pub fn nfc_lite(s: &str) -> Result<String, String> {
    let mut out = String::with_capacity(s.len());
    let cs: Vec<char> = s.chars().collect();
    let mut i = 0;
    'outer: while i < cs.len() {
        if i + 1 < cs.len() {
            for (dec, comp) in COMPOSE {
                let d: Vec<char> = dec.chars().collect();
                if cs[i] == d[0] && cs[i + 1] == d[1] {
                    out.push_str(comp);
                    i += 2;
                    continue 'outer;
                }
            }
        }
        // a lone U+1100 (Hangul leading consonant) is a starter and stays as it is
        if inert(cs[i]) || cs[i] == '\u{1100}' {
            out.push(cs[i]);
            i += 1;
        } else {
            return Err(format!(
                "character U+{:04X} outside the harness alphabet (normal form unknown)",
                cs[i] as u32
            ));
        }
    }
    Ok(out)
}

// ---------------------------------------------------------------------------------------------
// Reference canonical JSON (OLPC): http://wiki.laptop.org/go/Canonical_JSON
//  * no whitespace; members sorted by key (code points of the normalised key); strings NFC,
//    only `"` and `\` escaped (by backslash), everything else literal; integers shortest decimal;
//    floats are not allowed.

#[derive(Debug, Clone, PartialEq)]
pub enum CanonErr {
    Float,
    UnknownNormalForm(String),
    DuplicateKey(String),
}

pub fn refcanon(j: &J) -> Result<Vec<u8>, CanonErr> {
    let mut out = Vec::new();
    canon_rec(j, &mut out)?;
    Ok(out)
}

fn canon_str(s: &str, out: &mut Vec<u8>) -> Result<(), CanonErr> {
    let n = nfc_lite(s).map_err(CanonErr::UnknownNormalForm)?;
    out.push(b'"');
    for b in n.bytes() {
        if b == b'"' || b == b'\\' {
            out.push(b'\\');
        }
        out.push(b);
    }
    out.push(b'"');
    Ok(())
}

fn canon_rec(j: &J, out: &mut Vec<u8>) -> Result<(), CanonErr> {
    match j {
        J::Null => out.extend_from_slice(b"null"),
        J::Bool(true) => out.extend_from_slice(b"true"),
        J::Bool(false) => out.extend_from_slice(b"false"),
        J::U(u) => out.extend_from_slice(u.to_string().as_bytes()),
        J::I(i) => out.extend_from_slice(i.to_string().as_bytes()),
        J::F(_) => return Err(CanonErr::Float),
        J::S(s) => canon_str(s, out)?,
        J::A(a) => {
            out.push(b'[');
            for (i, v) in a.iter().enumerate() {
                if i > 0 {
                    out.push(b',');
                }
                canon_rec(v, out)?;
            }
            out.push(b']');
        }
        J::O(m) => {
            let mut ents: Vec<(Vec<char>, String, &J)> = Vec::with_capacity(m.len());
            for (k, v) in m {
                let nk = nfc_lite(k).map_err(CanonErr::UnknownNormalForm)?;
                ents.push((nk.chars().collect(), nk, v));
            }
            // order by code points of the normalised key
            ents.sort_by(|a, b| a.0.cmp(&b.0));
            for w in ents.windows(2) {
                if w[0].0 == w[1].0 {
                    return Err(CanonErr::DuplicateKey(w[0].1.clone()));
                }
            }
            out.push(b'{');
            for (i, (_, nk, v)) in ents.iter().enumerate() {
                if i > 0 {
                    out.push(b',');
                }
                canon_str(nk, out)?;
                out.push(b':');
                canon_rec(v, out)?;
            }
            out.push(b'}');
        }
    }
    Ok(())
}

/// NFC-normalise all strings/keys of a value (harness alphabet only).
pub fn normalise(j: &J) -> Result<J, String> {
    Ok(match j {
        J::S(s) => J::S(nfc_lite(s)?),
        J::A(a) => J::A(a.iter().map(normalise).collect::<Result<_, _>>()?),
        J::O(m) => {
            let mut v: Vec<(String, J)> = Vec::new();
            for (k, x) in m {
                v.push((nfc_lite(k)?, normalise(x)?));
            }
            v.sort_by(|a, b| a.0.chars().cmp(b.0.chars()));
            J::O(v)
        }
        other => other.clone(),
    })
}

/// Parser of canonical bytes back to a value. Strict: rejects whitespace, floats, unsorted or
/// duplicate keys, invalid UTF-8, leading zeros. Used for the injectivity half of C11: if the
/// produced bytes parse to the (normalised) input, two different inputs cannot share bytes.
pub fn parse_canon(b: &[u8]) -> Result<J, String> {
    let mut p = P { b, i: 0 };
    let v = p.val()?;
    if p.i != b.len() {
        return Err(format!("trailing bytes at {}", p.i));
    }
    Ok(v)
}

struct P<'a> {
    b: &'a [u8],
    i: usize,
}

impl<'a> P<'a> {
    fn peek(&self) -> Option<u8> {
        self.b.get(self.i).copied()
    }
    fn eat(&mut self, c: u8) -> Result<(), String> {
        if self.peek() == Some(c) {
            self.i += 1;
            Ok(())
        } else {
            Err(format!("expected {:?} at {}", c as char, self.i))
        }
    }
    fn lit(&mut self, s: &[u8]) -> bool {
        if self.b[self.i..].starts_with(s) {
            self.i += s.len();
            true
        } else {
            false
        }
    }
    fn val(&mut self) -> Result<J, String> {
        match self.peek() {
            None => Err("eof".into()),
            Some(b'n') if self.lit(b"null") => Ok(J::Null),
            Some(b't') if self.lit(b"true") => Ok(J::Bool(true)),
            Some(b'f') if self.lit(b"false") => Ok(J::Bool(false)),
            Some(b'"') => Ok(J::S(self.string()?)),
            Some(b'[') => {
                self.i += 1;
                let mut a = Vec::new();
                if self.peek() == Some(b']') {
                    self.i += 1;
                    return Ok(J::A(a));
                }
                loop {
                    a.push(self.val()?);
                    match self.peek() {
                        Some(b',') => self.i += 1,
                        Some(b']') => {
                            self.i += 1;
                            return Ok(J::A(a));
                        }
                        _ => return Err(format!("bad array at {}", self.i)),
                    }
                }
            }
            Some(b'{') => {
                self.i += 1;
                let mut m: Vec<(String, J)> = Vec::new();
                if self.peek() == Some(b'}') {
                    self.i += 1;
                    return Ok(J::O(m));
                }
                loop {
                    let k = self.string()?;
                    if let Some((pk, _)) = m.last() {
                        if pk.chars().cmp(k.chars()) != std::cmp::Ordering::Less {
                            return Err(format!("keys not strictly ascending: {pk:?} then {k:?}"));
                        }
                    }
                    self.eat(b':')?;
                    let v = self.val()?;
                    m.push((k, v));
                    match self.peek() {
                        Some(b',') => self.i += 1,
                        Some(b'}') => {
                            self.i += 1;
                            return Ok(J::O(m));
                        }
                        _ => return Err(format!("bad object at {}", self.i)),
                    }
                }
            }
            Some(c) if c == b'-' || c.is_ascii_digit() => {
                let st = self.i;
                if c == b'-' {
                    self.i += 1;
                }
                let ds = self.i;
                while self.peek().map_or(false, |c| c.is_ascii_digit()) {
                    self.i += 1;
                }
                let digits = &self.b[ds..self.i];
                if digits.is_empty() || (digits.len() > 1 && digits[0] == b'0') {
                    return Err("bad number".into());
                }
                if matches!(self.peek(), Some(b'.') | Some(b'e') | Some(b'E')) {
                    return Err("float".into());
                }
                let s = std::str::from_utf8(&self.b[st..self.i]).unwrap();
                if c == b'-' {
                    if s == "-0" {
                        return Err("negative zero".into());
                    }
                    s.parse::<i64>().map(J::I).map_err(|e| e.to_string())
                } else {
                    s.parse::<u64>().map(J::U).map_err(|e| e.to_string())
                }
            }
            Some(c) => Err(format!("unexpected byte {c:#x} at {}", self.i)),
        }
    }
    fn string(&mut self) -> Result<String, String> {
        self.eat(b'"')?;
        let mut raw = Vec::new();
        loop {
            match self.peek() {
                None => return Err("eof in string".into()),
                Some(b'"') => {
                    self.i += 1;
                    break;
                }
                Some(b'\\') => {
                    let n = self.b.get(self.i + 1).copied();
                    match n {
                        Some(b'"') | Some(b'\\') => {
                            raw.push(n.unwrap());
                            self.i += 2;
                        }
                        _ => return Err("bad escape".into()),
                    }
                }
                Some(c) => {
                    raw.push(c);
                    self.i += 1;
                }
            }
        }
        String::from_utf8(raw).map_err(|e| e.to_string())
    }
}

/// Canonical bytes as produced by the code under test (olpc-cjson) for a serde value.
pub fn olpc_canon(v: &serde_json::Value) -> Result<Vec<u8>, String> {
    use serde::Serialize;
    let mut data = Vec::new();
    let mut ser = serde_json::Serializer::with_formatter(&mut data, olpc_cjson::CanonicalFormatter::new());
    v.serialize(&mut ser).map_err(|e| e.to_string())?;
    Ok(data)
}

// (the two digest helpers need aws-lc, which Miri cannot run: not part of the `pure` build of miri-cjson)
#[cfg(not(feature = "pure"))]
pub fn sha256(b: &[u8]) -> Vec<u8> {
    aws_lc_rs::digest::digest(&aws_lc_rs::digest::SHA256, b)
        .as_ref()
        .to_vec()
}
#[cfg(not(feature = "pure"))]
pub fn sha256_hex(b: &[u8]) -> String {
    hex::encode(sha256(b))
}
