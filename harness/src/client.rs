//! Thin wrappers around the client API under test.

use crate::memtransport::MemTransport;
use std::path::Path;
use std::time::Duration;
use tough::{ExpirationEnforcement, Limits, Repository, RepositoryLoader};

#[derive(Clone, Debug, Default)]
pub struct LoadOpts {
    pub limits: Option<Limits>,
    pub enforce: Option<ExpirationEnforcement>,
}

#[derive(Debug)]
pub enum LoadErr {
    Tough(tough::error::Error),
    Watchdog,
}

impl LoadErr {
    /// Variant name of the tough error (first token of its Debug form).
    pub fn class(&self) -> String {
        match self {
            LoadErr::Watchdog => "Watchdog".into(),
            LoadErr::Tough(e) => err_class(e),
        }
    }
    pub fn text(&self) -> String {
        match self {
            LoadErr::Watchdog => "watchdog".into(),
            LoadErr::Tough(e) => full_error(e),
        }
    }
}

pub fn err_class(e: &tough::error::Error) -> String {
    let d = format!("{e:?}");
    d.split(|c: char| !c.is_alphanumeric()).next().unwrap_or("").to_string()
}

pub fn full_error(e: &dyn std::error::Error) -> String {
    let mut s = e.to_string();
    let mut cur = e.source();
    while let Some(c) = cur {
        s.push_str(" <- ");
        s.push_str(&c.to_string());
        cur = c.source();
    }
    s
}

pub fn watchdog(tier: crate::run::Tier) -> Duration {
    tier.pick(Duration::from_secs(20), Duration::from_secs(60))
}

pub async fn load(
    root: &[u8],
    t: &MemTransport,
    datastore: &Path,
    opts: &LoadOpts,
    wd: Duration,
) -> Result<Repository, LoadErr> {
    let root = root.to_vec();
    let mut l = RepositoryLoader::new(&root, MemTransport::meta_url(), MemTransport::targets_url())
        .transport(t.clone())
        .datastore(datastore);
    if let Some(lim) = opts.limits {
        l = l.limits(lim);
    }
    if let Some(e) = opts.enforce {
        l = l.expiration_enforcement(e);
    }
    match tokio::time::timeout(wd, l.load()).await {
        Err(_) => Err(LoadErr::Watchdog),
        Ok(Ok(r)) => Ok(r),
        Ok(Err(e)) => Err(LoadErr::Tough(e)),
    }
}
