//! Worker pool, case results, evidence collection, known-findings matching, replay files.

use crate::json::{render, Style, J};
use crate::obj;
use std::collections::{BTreeMap, HashSet};
use std::path::{Path, PathBuf};
use std::sync::atomic::{AtomicBool, AtomicU64, Ordering};
use std::sync::{Arc, Mutex};
use std::time::{Duration, Instant};

#[derive(Clone, Copy, Debug, PartialEq, Eq)]
pub enum Tier {
    Quick,
    Thorough,
}

impl Tier {
    pub fn name(self) -> &'static str {
        match self {
            Tier::Quick => "quick",
            Tier::Thorough => "thorough",
        }
    }
    pub fn pick<T>(self, q: T, t: T) -> T {
        match self {
            Tier::Quick => q,
            Tier::Thorough => t,
        }
    }
}

#[derive(Clone, Debug)]
pub struct Cfg {
    pub prop: String,
    pub tier: Tier,
    pub seed: u64,
    /// Some(index) = replay exactly this case, verbosely
    pub replay: Option<u64>,
    pub scratch: PathBuf,
    pub workers: usize,
    pub verbose: bool,
    /// Some((k, n)) = run only the cases whose index is congruent to k modulo n (sampling legs)
    pub shard: Option<(u64, u64)>,
    /// this process is an inner leg (e.g. under valgrind): no evidence / replay files, no coverage floors
    pub leg: bool,
}

#[derive(Clone, Debug)]
pub struct Viol {
    pub signature: String,
    pub detail: String,
}

/// What one case reports back.
#[derive(Clone, Debug, Default)]
pub struct CaseOut {
    /// executions of real code judged by the oracle in this case
    pub evals: u64,
    /// class fingerprint (None = do not count)
    pub fingerprint: Option<String>,
    pub nontrivial: bool,
    pub hist: Vec<String>,
    pub viols: Vec<Viol>,
    pub inconclusive: Vec<String>,
    pub observations: Vec<String>,
    /// full description of the case (inputs + recorded events)
    pub desc: Option<J>,
    /// harness self-check failure (wrong oracle / baseline does not load): makes the run "broken"
    pub broken: Option<String>,
}

impl CaseOut {
    pub fn viol(&mut self, sig: impl Into<String>, detail: impl Into<String>) {
        self.viols.push(Viol {
            signature: sig.into(),
            detail: detail.into(),
        });
    }
    pub fn h(&mut self, k: impl Into<String>) {
        self.hist.push(k.into());
    }
    pub fn obs(&mut self, k: impl Into<String>) {
        self.observations.push(k.into());
    }
    pub fn inconc(&mut self, k: impl Into<String>) {
        self.inconclusive.push(k.into());
    }
}

pub struct Worker {
    pub id: usize,
    pub dir: PathBuf,
    pub rt: tokio::runtime::Runtime,
    pub cfg: Cfg,
    counter: u64,
}

impl Worker {
    /// Fresh empty directory for this case (removed by `cleanup`).
    pub fn case_dir(&mut self) -> PathBuf {
        self.counter += 1;
        let d = self.dir.join(format!("c{}", self.counter));
        let _ = std::fs::remove_dir_all(&d);
        std::fs::create_dir_all(&d).expect("case dir");
        d
    }
    pub fn cleanup(&self, d: &Path) {
        let _ = std::fs::remove_dir_all(d);
    }
}

#[derive(Default)]
pub struct Ev {
    pub evaluations: u64,
    pub cases: u64,
    pub fingerprints: HashSet<u64>,
    pub hist: BTreeMap<String, u64>,
    pub inconclusive: BTreeMap<String, u64>,
    pub observations: BTreeMap<String, u64>,
    pub viols: Vec<(u64, Viol, Option<J>)>,
    pub samples: Vec<J>,
    pub broken: Vec<String>,
    pub extra: Vec<(String, J)>,
    pub exhaustive: bool,
}

thread_local! {
    static PANIC_LOC: std::cell::RefCell<Option<String>> = const { std::cell::RefCell::new(None) };
}

/// An inner leg stops taking new cases VERIF_LEG_BUDGET_S seconds into each `par_run` phase, so that
/// it ends by itself, covers every phase, and reports what it covered.
fn leg_deadline_passed(cfg: &Cfg, start: Instant) -> bool {
    if !cfg.leg {
        return false;
    }
    match std::env::var("VERIF_LEG_BUDGET_S").ok().and_then(|s| s.parse::<u64>().ok()) {
        Some(b) => start.elapsed() > Duration::from_secs(b),
        None => false,
    }
}

pub fn install_panic_hook() {
    std::panic::set_hook(Box::new(|info| {
        let loc = info
            .location()
            .map(|l| format!("{}:{}", l.file(), l.line()))
            .unwrap_or_default();
        let msg = if let Some(s) = info.payload().downcast_ref::<&str>() {
            (*s).to_string()
        } else if let Some(s) = info.payload().downcast_ref::<String>() {
            s.clone()
        } else {
            "panic".to_string()
        };
        PANIC_LOC.with(|p| *p.borrow_mut() = Some(format!("{loc}: {msg}")));
    }));
}

fn take_panic() -> String {
    PANIC_LOC.with(|p| p.borrow_mut().take()).unwrap_or_default()
}

/// Classify a caught panic: in code under test (violation) or in the harness (broken).
fn classify_panic(p: &str) -> (bool, String) {
    let in_harness = p.starts_with("src/") || p.contains("/verif/harness/");
    // signature: location file + first words of message, without numbers
    let short: String = p
        .chars()
        .map(|c| if c.is_ascii_digit() { '#' } else { c })
        .take(120)
        .collect();
    (!in_harness, short)
}

/// Run cases `0..n` (or until `f` returns None) on the worker pool.
pub fn par_run<F>(cfg: &Cfg, n: u64, wall_budget: Duration, f: F) -> Ev
where
    F: Fn(&mut Worker, u64) -> Option<CaseOut> + Sync,
{
    let ev = Arc::new(Mutex::new(Ev::default()));
    let next = AtomicU64::new(0);
    let stop = AtomicBool::new(false);
    let start = Instant::now();
    let workers = if cfg.replay.is_some() { 1 } else { cfg.workers };
    std::thread::scope(|s| {
        for w in 0..workers {
            let ev = ev.clone();
            let f = &f;
            let next = &next;
            let stop = &stop;
            let cfg = cfg.clone();
            std::thread::Builder::new()
                .stack_size(16 * 1024 * 1024)
                .spawn_scoped(s, move || {
                    let rt = tokio::runtime::Builder::new_current_thread()
                        .enable_all()
                        .max_blocking_threads(2)
                        .build()
                        .expect("runtime");
                    let dir = cfg.scratch.join(format!("w{w}"));
                    std::fs::create_dir_all(&dir).expect("worker dir");
                    let mut worker = Worker {
                        id: w,
                        dir,
                        rt,
                        cfg: cfg.clone(),
                        counter: 0,
                    };
                    loop {
                        if stop.load(Ordering::Relaxed) {
                            break;
                        }
                        let i = match cfg.replay {
                            Some(r) => {
                                if next.fetch_add(1, Ordering::Relaxed) > 0 {
                                    break;
                                }
                                r
                            }
                            None => {
                                let i = next.fetch_add(1, Ordering::Relaxed);
                                if i >= n {
                                    break;
                                }
                                if let Some((k, m)) = cfg.shard {
                                    if i % m != k {
                                        continue;
                                    }
                                }
                                i
                            }
                        };
                        if leg_deadline_passed(&cfg, start) {
                            stop.store(true, Ordering::Relaxed);
                            break;
                        }
                        if start.elapsed() > wall_budget {
                            let mut g = ev.lock().unwrap();
                            *g.inconclusive.entry("wall-budget-reached".into()).or_insert(0) += 1;
                            stop.store(true, Ordering::Relaxed);
                            break;
                        }
                        tough::verif_hooks::set_time(Some(crate::base_time()));
                        let r = std::panic::catch_unwind(std::panic::AssertUnwindSafe(|| f(&mut worker, i)));
                        tough::verif_hooks::set_time(None);
                        let out = match r {
                            Ok(Some(o)) => o,
                            Ok(None) => {
                                if cfg.replay.is_some() {
                                    println!("replay: case index out of range");
                                }
                                continue;
                            }
                            Err(_) => {
                                let p = take_panic();
                                let (in_sut, short) = classify_panic(&p);
                                let mut o = CaseOut::default();
                                o.evals = 1;
                                if in_sut {
                                    o.viol(format!("panic:{short}"), p);
                                } else {
                                    o.broken = Some(format!("harness panic in case {i}: {p}"));
                                }
                                o
                            }
                        };
                        if cfg.replay.is_some() {
                            println!("--- replay of case {i} ---");
                            if let Some(d) = &out.desc {
                                println!("{}", String::from_utf8_lossy(&render(d, Style::Pretty)));
                            }
                            for v in &out.viols {
                                println!("violation: {} — {}", v.signature, v.detail);
                            }
                            for x in &out.inconclusive {
                                println!("inconclusive: {x}");
                            }
                            for x in &out.observations {
                                println!("observation: {x}");
                            }
                        }
                        let mut g = ev.lock().unwrap();
                        g.cases += 1;
                        g.evaluations += out.evals;
                        if let Some(fp) = &out.fingerprint {
                            if out.nontrivial {
                                g.fingerprints.insert(crate::rng::fnv(fp));
                            }
                        }
                        for h in &out.hist {
                            *g.hist.entry(h.clone()).or_insert(0) += 1;
                        }
                        for h in &out.inconclusive {
                            *g.inconclusive.entry(h.clone()).or_insert(0) += 1;
                        }
                        for h in &out.observations {
                            *g.observations.entry(h.clone()).or_insert(0) += 1;
                        }
                        if let Some(b) = &out.broken {
                            if g.broken.len() < 20 {
                                g.broken.push(b.clone());
                            }
                        }
                        if !out.viols.is_empty() {
                            for v in &out.viols {
                                if g.viols.len() < 5000 {
                                    g.viols.push((i, v.clone(), out.desc.clone()));
                                }
                            }
                        }
                        if let Some(d) = &out.desc {
                            // keep a few samples: the first two, then non-trivial ones
                            if g.samples.len() < 2 || (out.nontrivial && g.samples.len() < 6) {
                                let mut d = d.clone();
                                if let J::O(m) = &mut d {
                                    m.insert(0, ("case_index".into(), J::U(i)));
                                }
                                g.samples.push(d);
                            }
                        }
                    }
                    let _ = std::fs::remove_dir_all(&worker.dir);
                })
                .expect("spawn");
        }
    });
    Arc::try_unwrap(ev).ok().expect("ev").into_inner().unwrap()
}

pub fn merge(a: &mut Ev, b: Ev) {
    a.evaluations += b.evaluations;
    a.cases += b.cases;
    a.fingerprints.extend(b.fingerprints);
    for (k, v) in b.hist {
        *a.hist.entry(k).or_insert(0) += v;
    }
    for (k, v) in b.inconclusive {
        *a.inconclusive.entry(k).or_insert(0) += v;
    }
    for (k, v) in b.observations {
        *a.observations.entry(k).or_insert(0) += v;
    }
    a.viols.extend(b.viols);
    for s in b.samples {
        if a.samples.len() < 10 {
            a.samples.push(s);
        }
    }
    a.broken.extend(b.broken);
    a.extra.extend(b.extra);
}

pub struct Finish<'a> {
    pub level: &'a str,
    pub rule: &'a str,
    pub assumptions: Vec<String>,
    /// histogram keys that must have been observed at least once (coverage floor)
    pub required_hist: Vec<String>,
    pub min_evaluations: u64,
}

#[derive(Debug, Clone)]
pub struct KnownFinding {
    pub property: String,
    pub signature: String,
    pub what: String,
}

pub fn load_known_findings(path: &Path) -> Vec<KnownFinding> {
    let mut v = Vec::new();
    let Ok(s) = std::fs::read_to_string(path) else {
        return v;
    };
    for line in s.lines() {
        let line = line.trim();
        if !line.starts_with("finding:") {
            continue;
        }
        let rest = line["finding:".len()..].trim();
        let mut property = String::new();
        let mut signature = String::new();
        let mut what = String::new();
        let mut it = rest.splitn(3, char::is_whitespace);
        for _ in 0..2 {
            if let Some(tok) = it.next() {
                if let Some(p) = tok.strip_prefix("property=") {
                    property = p.to_string();
                } else if let Some(s) = tok.strip_prefix("signature=") {
                    signature = s.to_string();
                }
            }
        }
        if let Some(w) = it.next() {
            what = w.trim().to_string();
        }
        if !property.is_empty() && !signature.is_empty() {
            v.push(KnownFinding {
                property,
                signature,
                what,
            });
        }
    }
    v
}

/// Write evidence + replay files, print verdict lines, return the process exit code.
pub fn finish(cfg: &Cfg, mut ev: Ev, fin: Finish<'_>, wall: Duration) -> i32 {
    let root = Path::new("/verif");
    let known = load_known_findings(&root.join("known_findings.txt"));
    let mut exit = 0;

    // coverage floors
    for k in &fin.required_hist {
        if ev.hist.get(k).copied().unwrap_or(0) == 0 && cfg.replay.is_none() && !cfg.leg {
            ev.broken.push(format!("coverage floor: nothing observed for '{k}'"));
        }
    }
    if ev.evaluations < fin.min_evaluations && cfg.replay.is_none() && !cfg.leg {
        ev.broken.push(format!(
            "coverage floor: {} evaluations < required {}",
            ev.evaluations, fin.min_evaluations
        ));
    }

    // group violations by signature
    let mut by_sig: BTreeMap<String, Vec<&(u64, Viol, Option<J>)>> = BTreeMap::new();
    for v in &ev.viols {
        by_sig.entry(v.1.signature.clone()).or_default().push(v);
    }
    let mut unknown = 0;
    let mut known_hits: Vec<(String, usize)> = Vec::new();
    let _ = std::fs::create_dir_all(root.join("replays"));
    for (sig, vs) in &by_sig {
        if let Some(k) = known.iter().find(|k| k.property == cfg.prop && &k.signature == sig) {
            println!(
                "KNOWN-FINDING: property={} signature={} cases={} {}",
                cfg.prop,
                sig,
                vs.len(),
                k.what
            );
            known_hits.push((sig.clone(), vs.len()));
            continue;
        }
        unknown += 1;
        let (idx, v, desc) = vs[0];
        let fname = format!(
            "replays/{}-{}-{:016x}.json",
            cfg.prop,
            cfg.tier.name(),
            crate::rng::fnv(&format!("{sig}{}", cfg.seed))
        );
        let rep = obj! {
            "property" => cfg.prop.as_str(),
            "tier" => cfg.tier.name(),
            "seed" => cfg.seed,
            "case_index" => *idx,
            "signature" => sig.as_str(),
            "detail" => v.detail.as_str(),
            "cases_with_this_signature" => vs.len(),
            "case" => desc.clone().unwrap_or(J::Null),
        };
        if cfg.replay.is_none() && !cfg.leg {
            let _ = std::fs::write(root.join(&fname), render(&rep, Style::Pretty));
        }
        println!("VIOLATION property={} replay=/verif/{}", cfg.prop, fname);
        println!("  signature={sig} cases={} first: {}", vs.len(), v.detail);
        exit = 1;
    }

    let inconc_total: u64 = ev.inconclusive.values().sum();
    let to_obj = |m: &BTreeMap<String, u64>| J::O(m.iter().map(|(k, v)| (k.clone(), J::U(*v))).collect());
    let mut cov = vec![
        ("evaluations".to_string(), J::U(ev.evaluations)),
        ("distinct_nontrivial".to_string(), J::U(ev.fingerprints.len() as u64)),
        ("rule".to_string(), J::from(fin.rule)),
        ("cases".to_string(), J::U(ev.cases)),
        ("exhaustive".to_string(), J::Bool(ev.exhaustive)),
        ("histogram".to_string(), to_obj(&ev.hist)),
        ("inconclusive".to_string(), to_obj(&ev.inconclusive)),
        ("inconclusive_total".to_string(), J::U(inconc_total)),
        ("observations".to_string(), to_obj(&ev.observations)),
        (
            "known_findings_hit".to_string(),
            J::O(known_hits.iter().map(|(s, n)| (s.clone(), J::U(*n as u64))).collect()),
        ),
        (
            "violation_signatures".to_string(),
            J::O(by_sig.iter().map(|(s, v)| (s.clone(), J::U(v.len() as u64))).collect()),
        ),
        ("broken_harness".to_string(), J::A(ev.broken.iter().map(|s| J::from(s.as_str())).collect())),
    ];
    for (k, v) in &ev.extra {
        cov.push((k.clone(), v.clone()));
    }
    cov.push(("samples".to_string(), J::A(ev.samples.clone())));
    let evidence = obj! {
        "property_id" => cfg.prop.as_str(),
        "tier" => cfg.tier.name(),
        "seed" => cfg.seed,
        "level" => fin.level,
        "coverage" => J::O(cov),
        "assumptions" => J::A(fin.assumptions.iter().map(|s| J::from(s.as_str())).collect()),
        "wall_s" => J::F((wall.as_secs_f64() * 100.0).round() / 100.0),
        "violations" => unknown as u64,
    };
    if cfg.leg {
        println!("LEG-SUMMARY cases={} evaluations={} unknown_violation_signatures={unknown} broken={}", ev.cases, ev.evaluations, ev.broken.len());
    }
    if cfg.replay.is_none() && !cfg.leg {
        let _ = std::fs::create_dir_all(root.join("evidence"));
        let p = root.join(format!("evidence/{}.json", cfg.prop));
        std::fs::write(&p, render(&evidence, Style::Pretty)).expect("write evidence");
    }
    println!(
        "{}: tier={} seed={} cases={} evaluations={} distinct_nontrivial={} inconclusive={} unknown_violation_signatures={} known_findings={} wall={:.1}s",
        cfg.prop,
        cfg.tier.name(),
        cfg.seed,
        ev.cases,
        ev.evaluations,
        ev.fingerprints.len(),
        inconc_total,
        unknown,
        known_hits.len(),
        wall.as_secs_f64()
    );
    if !ev.broken.is_empty() {
        for b in &ev.broken {
            println!("BROKEN-HARNESS: {b}");
        }
        if exit == 0 {
            exit = 2;
        }
    }
    exit
}
