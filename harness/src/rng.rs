//! Small deterministic PRNG (splitmix64 seeding + xoshiro256**). No external crates.

#[derive(Clone, Debug)]
pub struct Rng {
    s: [u64; 4],
}

fn splitmix(x: &mut u64) -> u64 {
    *x = x.wrapping_add(0x9E37_79B9_7F4A_7C15);
    let mut z = *x;
    z = (z ^ (z >> 30)).wrapping_mul(0xBF58_476D_1CE4_E5B9);
    z = (z ^ (z >> 27)).wrapping_mul(0x94D0_49BB_1331_11EB);
    z ^ (z >> 31)
}

pub fn fnv(s: &str) -> u64 {
    let mut h: u64 = 0xcbf2_9ce4_8422_2325;
    for b in s.as_bytes() {
        h ^= u64::from(*b);
        h = h.wrapping_mul(0x0000_0100_0000_01B3);
    }
    h
}

impl Rng {
    pub fn new(seed: u64) -> Self {
        let mut x = seed;
        let s = [
            splitmix(&mut x),
            splitmix(&mut x),
            splitmix(&mut x),
            splitmix(&mut x),
        ];
        Rng { s }
    }

    /// Stream for case `i` of property `prop` under `seed`.
    pub fn for_case(seed: u64, prop: &str, i: u64) -> Self {
        let mut x = seed ^ fnv(prop).rotate_left(17) ^ i.wrapping_mul(0xD6E8_FEB8_6659_FD93);
        let a = splitmix(&mut x);
        Rng::new(a ^ i)
    }

    pub fn next(&mut self) -> u64 {
        let r = self.s[1].wrapping_mul(5).rotate_left(7).wrapping_mul(9);
        let t = self.s[1] << 17;
        self.s[2] ^= self.s[0];
        self.s[3] ^= self.s[1];
        self.s[1] ^= self.s[2];
        self.s[0] ^= self.s[3];
        self.s[2] ^= t;
        self.s[3] = self.s[3].rotate_left(45);
        r
    }

    /// Uniform in 0..n (n > 0).
    pub fn below(&mut self, n: u64) -> u64 {
        assert!(n > 0);
        self.next() % n
    }

    pub fn range(&mut self, lo: u64, hi_incl: u64) -> u64 {
        lo + self.below(hi_incl - lo + 1)
    }

    pub fn usize(&mut self, n: usize) -> usize {
        self.below(n as u64) as usize
    }

    pub fn bool(&mut self) -> bool {
        self.next() & 1 == 1
    }

    /// true with probability num/den
    pub fn chance(&mut self, num: u64, den: u64) -> bool {
        self.below(den) < num
    }

    pub fn pick<'a, T>(&mut self, xs: &'a [T]) -> &'a T {
        &xs[self.usize(xs.len())]
    }

    pub fn shuffle<T>(&mut self, xs: &mut [T]) {
        for i in (1..xs.len()).rev() {
            let j = self.usize(i + 1);
            xs.swap(i, j);
        }
    }

    pub fn bytes(&mut self, n: usize) -> Vec<u8> {
        let mut v = Vec::with_capacity(n);
        while v.len() < n {
            let x = self.next().to_le_bytes();
            let take = (n - v.len()).min(8);
            v.extend_from_slice(&x[..take]);
        }
        v
    }
}
