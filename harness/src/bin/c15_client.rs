//! One update cycle in a child process (the thing strace injects faults into / kills).
//! usage: c15_client <root.json> <repo-dir> <datastore-dir>
//! The repository files are read into memory BEFORE the client starts, and every datastore
//! operation runs on one blocking thread (max_blocking_threads = 1).

use std::collections::BTreeMap;
use std::path::Path;
use tough_verif::client::{self, LoadOpts};
use tough_verif::memtransport::MemTransport;

fn collect(dir: &Path, prefix: &str, out: &mut BTreeMap<String, Vec<u8>>) {
    let Ok(rd) = std::fs::read_dir(dir) else { return };
    for e in rd.flatten() {
        let p = e.path();
        let name = e.file_name().to_string_lossy().to_string();
        if p.is_dir() {
            collect(&p, &format!("{prefix}/{name}"), out);
        } else if let Ok(b) = std::fs::read(&p) {
            out.insert(format!("{prefix}/{name}"), b);
        }
    }
}

fn main() {
    let a: Vec<String> = std::env::args().collect();
    if a.len() < 4 {
        eprintln!("usage: c15_client <root.json> <repo-dir> <datastore-dir>");
        std::process::exit(2);
    }
    let root = std::fs::read(&a[1]).expect("root");
    let mut files = BTreeMap::new();
    collect(Path::new(&a[2]), "", &mut files);
    let ds = std::path::PathBuf::from(&a[3]);
    let rt = tokio::runtime::Builder::new_current_thread()
        // no I/O driver: the runtime then parks on a futex, not on an eventfd, so the only `write` calls of the
        // blocking thread are the padding and the datastore writes (deterministic ordinals for strace)
        .enable_time()
        .max_blocking_threads(1)
        .thread_keep_alive(std::time::Duration::from_secs(600))
        .build()
        .expect("runtime");
    let t = MemTransport::new(files);
    // Padding: strace's `when=N` counters are per thread. All datastore operations run on the one
    // blocking thread; give that thread a head start of PAD openat/write calls so that the ordinals
    // of its datastore calls are never reached by any other thread (loader, main thread).
    const PAD: usize = 96;
    rt.block_on(async {
        tokio::task::spawn_blocking(|| {
            use std::io::Write;
            for _ in 0..PAD {
                if let Ok(mut f) = std::fs::OpenOptions::new().write(true).open("/dev/null") {
                    let _ = f.write(b"x");
                }
            }
        })
        .await
        .unwrap();
    });
    println!("CLIENT-START");
    let res = rt.block_on(client::load(&root, &t, &ds, &LoadOpts::default(), std::time::Duration::from_secs(60)));
    match res {
        Ok(r) => {
            println!(
                "RESULT ok root={} ts={} snap={} tg={}",
                r.root().signed.version,
                r.timestamp().signed.version,
                r.snapshot().signed.version,
                r.targets().signed.version
            );
            std::process::exit(0);
        }
        Err(e) => {
            // Display only: the Debug form of the library's error symbolises a backtrace (~0.5 s per process)
            println!("RESULT err {}", e.text().replace('\n', " "));
            std::process::exit(3);
        }
    }
}
