//! Update-cycle histories over one datastore directory (shared by C03, C04, C14).

use crate::client::{self, LoadOpts};
use crate::forge::*;
use crate::json::{render, Style, J};
use crate::memtransport::MemTransport;
use crate::obj;
use crate::run::Worker;
use std::collections::BTreeMap;
use std::path::Path;

/// Root versions 1..=n. `epochs[k]` is the key configuration of root version k+1.
#[derive(Clone, Debug)]
pub struct Epochs {
    pub cfgs: Vec<RootKeys>,
    pub consistent: bool,
    pub root_expires: Vec<String>,
}

impl Epochs {
    pub fn single(cfg: RootKeys, consistent: bool) -> Self {
        Epochs {
            cfgs: vec![cfg],
            consistent,
            root_expires: vec![FAR.to_string()],
        }
    }
    pub fn push(&mut self, cfg: RootKeys) {
        self.cfgs.push(cfg);
        self.root_expires.push(FAR.to_string());
    }
    pub fn root_bytes(&self, version: u64) -> Vec<u8> {
        let k = (version - 1) as usize;
        let signed = root_signed(version, self.consistent, &self.root_expires[k], &self.cfgs[k]);
        // signed by its own root keys and by the previous root's keys
        let mut signers: Vec<usize> = self.cfgs[k].root.keys.iter().take(self.cfgs[k].root.threshold as usize).copied().collect();
        if k > 0 {
            for s in self.cfgs[k - 1].root.keys.iter().take(self.cfgs[k - 1].root.threshold as usize) {
                if !signers.contains(s) {
                    signers.push(*s);
                }
            }
        }
        render(&sign_with(&signed, &signers), Style::Compact)
    }
}

#[derive(Clone, Debug)]
pub struct Served {
    pub ts: u64,
    pub snap: u64,
    /// targets version listed in the snapshot (None = entry dropped)
    pub listed: Option<u64>,
    pub tg: u64,
    pub ts_expires: String,
    pub snap_expires: String,
    pub tg_expires: String,
    /// length of an extra (signed, unknown) string member in timestamp / snapshot / targets, so
    /// that the serialised size of a role can shrink or grow independently of its version
    pub pad: [usize; 3],
}

impl Served {
    pub fn new(ts: u64, snap: u64, listed: Option<u64>, tg: u64) -> Self {
        Served {
            ts,
            snap,
            listed,
            tg,
            ts_expires: FAR.into(),
            snap_expires: FAR.into(),
            tg_expires: FAR.into(),
            pad: [0; 3],
        }
    }
    pub fn with_pad(mut self, pad: [usize; 3]) -> Self {
        self.pad = pad;
        self
    }
    pub fn tuple(&self) -> String {
        format!(
            "({},{},{},{})",
            self.ts,
            self.snap,
            self.listed.map_or("-".to_string(), |l| l.to_string()),
            self.tg
        )
    }
}

fn signers(r: &RoleKeys) -> Vec<usize> {
    r.keys.iter().take(r.threshold as usize).copied().collect()
}

/// Files of one cycle: all roots 1..=published, and ts/snapshot/targets signed with the online keys
/// of root `published`. No digests/lengths are pinned so that versions can be combined freely.
pub fn cycle_files(ep: &Epochs, published: u64, s: &Served) -> BTreeMap<String, Vec<u8>> {
    let mut files = BTreeMap::new();
    for v in 1..=published {
        files.insert(meta_path(ep.consistent, v, "root"), ep.root_bytes(v));
    }
    let cfg = &ep.cfgs[(published - 1) as usize];
    let content = b"history target".to_vec();
    let padded = |mut j: J, n: usize| -> J {
        if n > 0 {
            j.set("zz-pad", "p".repeat(n));
        }
        j
    };
    let tg = padded(
        targets_signed(
            s.tg,
            &s.tg_expires,
            vec![("h.txt".to_string(), target_entry(&content, None))],
            None,
        ),
        s.pad[2],
    );
    // the client asks for `<listed>.targets.json` under consistent snapshots
    let tg_path_version = s.listed.unwrap_or(s.tg);
    files.insert(
        meta_path(ep.consistent, tg_path_version, "targets"),
        render(&sign_with(&tg, &signers(&cfg.targets)), Style::Compact),
    );
    files.insert(target_path(ep.consistent, "h.txt", &content), content);
    let meta = match s.listed {
        Some(l) => vec![("targets.json".to_string(), metafile(l, None, None))],
        None => vec![],
    };
    let snap = padded(snapshot_signed(s.snap, &s.snap_expires, meta), s.pad[1]);
    files.insert(
        meta_path(ep.consistent, s.snap, "snapshot"),
        render(&sign_with(&snap, &signers(&cfg.snapshot)), Style::Compact),
    );
    let ts = padded(timestamp_signed(s.ts, &s.ts_expires, metafile(s.snap, None, None)), s.pad[0]);
    files.insert(
        meta_path(ep.consistent, s.ts, "timestamp"),
        render(&sign_with(&ts, &signers(&cfg.timestamp)), Style::Compact),
    );
    files
}

#[derive(Clone, Debug)]
pub struct CycleObs {
    pub ok: bool,
    pub watchdog: bool,
    pub err_class: String,
    pub err_text: String,
    pub root: u64,
    pub ts: u64,
    pub snap: u64,
    pub listed: Option<u64>,
    pub tg: u64,
    pub requests: Vec<String>,
}

impl CycleObs {
    pub fn to_j(&self) -> J {
        if self.ok {
            obj! {"result" => "ok", "root" => self.root, "timestamp" => self.ts, "snapshot" => self.snap,
            "listed_targets" => self.listed.map_or(J::Null, J::U), "targets" => self.tg}
        } else {
            obj! {"result" => "error", "class" => self.err_class.as_str(), "text" => self.err_text.as_str()}
        }
    }
}

pub fn run_cycle(
    w: &mut Worker,
    shipped_root: &[u8],
    files: BTreeMap<String, Vec<u8>>,
    ds: &Path,
    opts: &LoadOpts,
) -> (CycleObs, Option<tough::Repository>) {
    let t = MemTransport::new(files);
    let res = w
        .rt
        .block_on(client::load(shipped_root, &t, ds, opts, client::watchdog(w.cfg.tier)));
    let requests = t.log_paths();
    match res {
        Ok(repo) => {
            let o = CycleObs {
                ok: true,
                watchdog: false,
                err_class: String::new(),
                err_text: String::new(),
                root: repo.root().signed.version.get(),
                ts: repo.timestamp().signed.version.get(),
                snap: repo.snapshot().signed.version.get(),
                listed: repo.snapshot().signed.meta.get("targets.json").map(|m| m.version.get()),
                tg: repo.targets().signed.version.get(),
                requests,
            };
            (o, Some(repo))
        }
        Err(e) => (
            CycleObs {
                ok: false,
                watchdog: matches!(e, client::LoadErr::Watchdog),
                err_class: e.class(),
                err_text: e.text(),
                root: 0,
                ts: 0,
                snap: 0,
                listed: None,
                tg: 0,
                requests,
            },
            None,
        ),
    }
}
