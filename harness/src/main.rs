use std::path::PathBuf;
use tough_verif::run::{Cfg, Tier};

fn main() {
    let args: Vec<String> = std::env::args().collect();
    if args.len() < 2 {
        eprintln!("usage: verif <ID> [--tier quick|thorough] [--replay FILE] [--seed N]");
        std::process::exit(2);
    }
    if args[1] == "--memcheck-selftest" {
        // deliberately reads one byte past a heap block and one uninitialised byte: the memcheck
        // leg runs this first and only trusts a silent valgrind if this one was reported
        let v: Vec<u8> = vec![1u8; 24];
        let p = v.as_ptr();
        let beyond = unsafe { std::ptr::read_volatile(p.add(24 + 3)) };
        println!("selftest read {beyond}");
        return;
    }
    let prop = args[1].clone();
    let mut tier = match std::env::var("VERIF_TIER").as_deref() {
        Ok("thorough") => Tier::Thorough,
        _ => Tier::Quick,
    };
    let mut tier_forced = false;
    let mut seed: u64 = std::env::var("VERIF_SEED").ok().and_then(|s| s.parse().ok()).unwrap_or(1);
    let mut replay = None;
    let mut verbose = false;
    let mut i = 2;
    while i < args.len() {
        match args[i].as_str() {
            "--tier" => {
                tier = if args[i + 1] == "thorough" { Tier::Thorough } else { Tier::Quick };
                tier_forced = true;
                i += 1;
            }
            "--seed" => {
                seed = args[i + 1].parse().expect("seed");
                i += 1;
            }
            "--replay" => {
                let f = std::fs::read(&args[i + 1]).expect("replay file");
                let j = tough_verif::json::J::parse(&f).expect("replay json");
                replay = Some(j.at("case_index").as_u64().expect("case_index"));
                seed = j.at("seed").as_u64().unwrap_or(seed);
                tier = if j.at("tier").as_str() == Some("thorough") { Tier::Thorough } else { Tier::Quick };
                i += 1;
            }
            "-v" => verbose = true,
            other => {
                eprintln!("unknown argument {other}");
                std::process::exit(2);
            }
        }
        i += 1;
    }
    let _ = tier_forced;
    let scratch_base = if std::path::Path::new("/dev/shm").is_dir() {
        PathBuf::from("/dev/shm")
    } else {
        PathBuf::from("/verif/.cache/scratch")
    };
    let scratch = scratch_base.join(format!("verif-{}-{}", std::process::id(), prop));
    std::fs::create_dir_all(&scratch).expect("scratch dir");
    std::env::set_var("TMPDIR", &scratch);
    let workers = std::env::var("VERIF_WORKERS")
        .ok()
        .and_then(|s| s.parse().ok())
        .unwrap_or(16usize);
    let cfg = Cfg {
        prop: prop.clone(),
        tier,
        seed,
        replay,
        scratch: scratch.clone(),
        workers,
        verbose,
        shard: std::env::var("VERIF_SHARD").ok().and_then(|s| {
            let (k, n) = s.split_once('/')?;
            Some((k.parse().ok()?, n.parse().ok()?))
        }),
        leg: std::env::var("VERIF_LEG").is_ok(),
    };
    tough_verif::run::install_panic_hook();
    let code = tough_verif::props::dispatch(&cfg);
    let _ = std::fs::remove_dir_all(&scratch);
    std::process::exit(code);
}
