//! Supplementary sanitizer leg: the same monitor binary, the same generated cases (a residue-class
//! sample of the quick-tier case list), executed under valgrind memcheck. What is judged here is not
//! the property's oracle again but memcheck's: invalid reads / writes / frees, use of uninitialised
//! values and overlapping copies in tough, its dependencies and the native crypto library
//! (aws-lc) while they digest the hostile documents, signatures, keys and byte streams of this
//! property's workload. An error is reported under the property whose workload provoked it.

use crate::json::J;
use crate::obj;
use crate::run::{Cfg, Ev, Viol};
use std::process::{Command, Stdio};
use std::time::{Duration, Instant};

pub struct Leg {
    /// number of valgrind processes run in parallel, each on its own residue class
    pub processes: u64,
    /// modulus of the residue classes (>= processes): processes/modulus of the case list is sampled
    pub modulus: u64,
    pub limit: Duration,
}

fn first_error(log: &str) -> Option<(String, String, String)> {
    // "==123== Invalid read of size 8" / "==123==    at 0x...: func (file:line)"
    let mut lines = log.lines().map(|l| match l.find("== ") {
        Some(p) if l.starts_with("==") => &l[p + 3..],
        _ => l,
    });
    let kinds = [
        "Invalid read",
        "Invalid write",
        "Invalid free",
        "Mismatched free",
        "Conditional jump or move depends on uninitialised",
        "Use of uninitialised value",
        "Syscall param",
        "Source and destination overlap",
        "Argument",
        "Jump to the invalid address",
        "Process terminating with default action of signal",
    ];
    while let Some(l) = lines.next() {
        if let Some(k) = kinds.iter().find(|k| l.trim_start().starts_with(**k)) {
            let mut block = vec![l.to_string()];
            let mut frame = String::new();
            for l2 in lines.by_ref() {
                if l2.trim().is_empty() {
                    break;
                }
                if frame.is_empty() {
                    if let Some(p) = l2.find(": ") {
                        let t = l2.trim_start();
                        if t.starts_with("at 0x") || t.starts_with("by 0x") {
                            let f = l2[p + 2..].split(" (").next().unwrap_or("").to_string();
                            // skip the interposed allocator / libc copy routines
                            if !["malloc", "calloc", "realloc", "free", "memcpy", "memmove", "memset", "__memcpy", "__memmove"].iter().any(|s| f.starts_with(s)) {
                                frame = f;
                            }
                        }
                    }
                }
                if block.len() < 14 {
                    block.push(l2.to_string());
                }
            }
            // strip the rustc hash suffix and generic arguments
            let mut f = frame;
            if let Some(p) = f.find("::h") {
                if f.len() - p == 19 {
                    f.truncate(p);
                }
            }
            if let Some(p) = f.find('<') {
                f.truncate(p);
            }
            return Some((k.to_string(), f, block.join("\n")));
        }
    }
    None
}

/// Runs the leg and records what it saw in `ev`. Never panics; anything that prevents memcheck from
/// observing cases is recorded as inconclusive, not as a verdict.
pub fn wanted(cfg: &Cfg) -> bool {
    !cfg.leg && cfg.replay.is_none() && (cfg.tier == crate::run::Tier::Thorough || std::env::var("VERIF_MEMCHECK").is_ok())
}

pub fn run(cfg: &Cfg, ev: &mut Ev, leg: Leg) {
    if !wanted(cfg) {
        return;
    }
    let exe = match std::env::current_exe() {
        Ok(e) => e,
        Err(_) => {
            *ev.inconclusive.entry("memcheck-leg:no-current-exe".into()).or_insert(0) += 1;
            return;
        }
    };
    let version = Command::new("valgrind").arg("--version").output().ok().map(|o| String::from_utf8_lossy(&o.stdout).trim().to_string());
    let Some(version) = version.filter(|v| !v.is_empty()) else {
        *ev.inconclusive.entry("memcheck-leg:valgrind-not-available".into()).or_insert(0) += 1;
        return;
    };
    let dir = cfg.scratch.join("memcheck");
    let _ = std::fs::create_dir_all(&dir);
    // self-test: a deliberate out-of-bounds heap read in this very binary must be reported
    let st = Command::new("valgrind")
        .args(["--error-exitcode=97", "--leak-check=no", "-q"])
        .arg(&exe)
        .arg("--memcheck-selftest")
        .stdin(Stdio::null())
        .stdout(Stdio::null())
        .stderr(Stdio::null())
        .status();
    let selftest_fired = matches!(st, Ok(s) if s.code() == Some(97));
    if !selftest_fired {
        *ev.inconclusive.entry("memcheck-leg:selftest-error-was-not-reported".into()).or_insert(0) += 1;
        return;
    }
    let start = Instant::now();
    let mut kids = Vec::new();
    // an offset derived from the seed moves the sampled residue classes from run to run
    let off = cfg.seed % leg.modulus;
    for k in 0..leg.processes {
        let residue = (off + k * (leg.modulus / leg.processes).max(1)) % leg.modulus;
        let log = dir.join(format!("vg-{k}.log"));
        let out = dir.join(format!("out-{k}.txt"));
        let outf = std::fs::File::create(&out).expect("leg output file");
        let child = Command::new("valgrind")
            .arg("--error-exitcode=97")
            .arg("--leak-check=no")
            .arg("--num-callers=30")
            .arg(format!("--log-file={}", log.display()))
            .arg(&exe)
            .arg(&cfg.prop)
            .args(["--tier", "quick", "--seed", &cfg.seed.to_string()])
            .env("VERIF_SHARD", format!("{residue}/{}", leg.modulus))
            .env("VERIF_LEG", "1")
            .env("VERIF_WORKERS", "1")
            .env("VERIF_LEG_BUDGET_S", (leg.limit.as_secs() * 2 / 5).max(10).to_string())
            .env("RUST_BACKTRACE", "0")
            .stdin(Stdio::null())
            .stdout(Stdio::from(outf))
            .stderr(Stdio::null())
            .spawn();
        match child {
            Ok(c) => kids.push((k, residue, c, log, out)),
            Err(_) => *ev.inconclusive.entry("memcheck-leg:spawn-failed".into()).or_insert(0) += 1,
        }
    }
    let mut cases = 0u64;
    let mut evals = 0u64;
    let mut errors = 0u64;
    let mut timed_out = 0u64;
    let mut completed = 0u64;
    let mut per = Vec::new();
    for (k, residue, mut c, log, out) in kids {
        let status = loop {
            match c.try_wait() {
                Ok(Some(s)) => break Some(s),
                Ok(None) if start.elapsed() > leg.limit => {
                    let _ = c.kill();
                    let _ = c.wait();
                    break None;
                }
                Ok(None) => std::thread::sleep(Duration::from_millis(200)),
                Err(_) => break None,
            }
        };
        let text = std::fs::read_to_string(&out).unwrap_or_default();
        let logtxt = std::fs::read_to_string(&log).unwrap_or_default();
        let mut c_cases = 0;
        let mut c_evals = 0;
        for l in text.lines() {
            if let Some(rest) = l.strip_prefix("LEG-SUMMARY ") {
                for kv in rest.split_whitespace() {
                    if let Some(v) = kv.strip_prefix("cases=") {
                        c_cases = v.parse().unwrap_or(0);
                    }
                    if let Some(v) = kv.strip_prefix("evaluations=") {
                        c_evals = v.parse().unwrap_or(0);
                    }
                }
            }
        }
        let nerr: u64 = logtxt
            .lines()
            .filter_map(|l| l.split("ERROR SUMMARY: ").nth(1))
            .filter_map(|r| r.split_whitespace().next()?.parse::<u64>().ok())
            .last()
            .unwrap_or(0);
        match status {
            None => {
                timed_out += 1;
                *ev.inconclusive.entry("memcheck-leg:process-stopped-at-time-limit".into()).or_insert(0) += 1;
            }
            Some(_) => completed += 1,
        }
        cases += c_cases;
        evals += c_evals;
        let reported = first_error(&logtxt);
        if nerr > 0 || reported.is_some() {
            errors += nerr.max(1);
            let (kind, frame, block) = reported.unwrap_or(("unclassified".into(), "".into(), logtxt.chars().take(1500).collect()));
            let keep = format!("replays/{}-memcheck-{:016x}.log", cfg.prop, crate::rng::fnv(&format!("{kind}{frame}")));
            let _ = std::fs::create_dir_all("/verif/replays");
            let _ = std::fs::write(format!("/verif/{keep}"), &logtxt);
            ev.viols.push((
                0,
                Viol {
                    signature: format!("memcheck:{}:{}", kind.to_lowercase().replace(' ', "-"), frame),
                    detail: format!("valgrind memcheck reported {nerr} error(s) while the {} workload (residue {residue}/{}) ran; first:\n{block}\nfull log: /verif/{keep}", cfg.prop, leg.modulus),
                },
                Some(obj! {
                    "kind" => "memcheck leg",
                    "reproduce" => format!(
                        "VERIF_SHARD={residue}/{} VERIF_LEG=1 VERIF_WORKERS=1 valgrind --leak-check=no --num-callers=30 /verif/.cache/target/release/verif {} --tier quick --seed {}",
                        leg.modulus, cfg.prop, cfg.seed
                    ),
                }),
            ));
        }
        per.push(obj! {"process" => k, "residue" => residue, "cases" => c_cases, "evaluations" => c_evals, "memcheck_errors" => nerr, "ran_to_completion" => status.is_some()});
    }
    if cases == 0 {
        *ev.inconclusive.entry("memcheck-leg:observed-no-case".into()).or_insert(0) += 1;
    } else {
        *ev.hist.entry("memcheck-leg:cases-under-memcheck".into()).or_insert(0) += cases;
    }
    ev.extra.push((
        "memcheck_leg".into(),
        obj! {
            "tool" => version.as_str(),
            "options" => "--leak-check=no --num-callers=30 --error-exitcode=97 (undefined-value errors ON)",
            "what" => "the monitor binary itself re-run under memcheck on a residue-class sample of this property's quick-tier case list (same generators, same oracles); memcheck judges memory errors in tough, its dependencies and the native crypto library",
            "selftest_out_of_bounds_read_reported" => selftest_fired,
            "sampled_fraction" => format!("{}/{}", leg.processes, leg.modulus),
            "processes" => leg.processes,
            "processes_completed" => completed,
            "processes_stopped_at_time_limit" => timed_out,
            "cases_under_memcheck" => cases,
            "evaluations_under_memcheck" => evals,
            "memcheck_errors" => errors,
            "wall_s" => J::F((start.elapsed().as_secs_f64() * 10.0).round() / 10.0),
            "per_process" => J::A(per),
        },
    ));
    let _ = std::fs::remove_dir_all(&dir);
}
