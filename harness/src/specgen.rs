//! Random repository specifications (delegation trees, odd names, key sets) shared by C10, C17, C19.

use crate::forge::*;
use crate::json::{Style, J};
use crate::keys::{N_EC, N_ED, N_RSA};
use crate::obj;
use crate::rng::Rng;
use url::Url;

/// Class of a target name with respect to URL joining (see DESIGN §6 K).
pub fn name_class(name: &str) -> &'static str {
    let inert = |c: char| c.is_ascii_alphanumeric() || "._~/-".contains(c);
    if name.chars().all(inert) {
        return "inert";
    }
    if name.contains('?') {
        return "query";
    }
    if name.contains('#') {
        return "fragment";
    }
    if name.contains(':') {
        return "scheme-like";
    }
    if name.contains('%') {
        // valid %XX sequences are inert for the URL but not for a file system path
        return "percent";
    }
    if name.contains(' ') {
        return "space";
    }
    if !name.is_ascii() {
        return "non-ascii";
    }
    "other-punctuation"
}

pub const INERT_NAMES: [&str; 10] = ["file.txt", "a", "b.bin", "img/logo.png", "x/y/z.dat", "v1.0~rc", "UPPER", "under_score", "dash-name", "dot.dot.d"];
pub const ODD_NAMES: [&str; 8] = ["my file.txt", "h\u{e9}llo.txt", "q?x.txt", "a#b.txt", "c:d.txt", "pct%41.txt", "semi;colon", "plus+sign"];

pub fn sizes(r: &mut Rng) -> usize {
    *r.pick(&[0usize, 1, 17, 100, 1000, 5000, 32768])
}

pub fn content_for(name: &str, size: usize) -> Vec<u8> {
    Rng::new(crate::rng::fnv(name) ^ size as u64).bytes(size)
}

pub const ROLE_NAMES: [&str; 10] = ["alpha", "beta", "role one", "r\u{f6}le", "a/b", "..%2Fx", "dot.s", "UP", "q?r", "h#s"];

#[derive(Clone, Debug)]
pub struct GenOpts {
    pub odd_target_names: bool,
    pub odd_role_names: bool,
    pub extras: bool,
    pub max_depth: usize,
    pub big_delegated: bool,
}

fn pick_keys(r: &mut Rng, n: usize, avoid: &mut Vec<usize>) -> Vec<usize> {
    let mut v = Vec::new();
    let mut guard = 0;
    while v.len() < n && guard < 500 {
        guard += 1;
        let k = 4 + r.usize(N_ED + N_EC + N_RSA - 4);
        if !v.contains(&k) && !avoid.contains(&k) {
            v.push(k);
        }
    }
    // when the pool of unused keys is exhausted, keys are shared between roles (never within one role)
    let mut guard = 0;
    while v.len() < n.min(1).max(if v.is_empty() { 1 } else { 0 }) && guard < 500 {
        guard += 1;
        let k = 4 + r.usize(N_ED + N_EC + N_RSA - 4);
        if !v.contains(&k) {
            v.push(k);
        }
    }
    avoid.extend(v.iter().copied());
    v
}

fn gen_targets(r: &mut Rng, prefix: &str, n: usize, opts: &GenOpts, used: &mut Vec<String>) -> Vec<TargetSpec> {
    let mut v = Vec::new();
    for _ in 0..n {
        let base = if opts.odd_target_names && r.chance(1, 3) {
            ODD_NAMES[r.usize(ODD_NAMES.len())]
        } else {
            INERT_NAMES[r.usize(INERT_NAMES.len())]
        };
        let name = format!("{prefix}{base}");
        if used.contains(&name) {
            continue;
        }
        used.push(name.clone());
        let size = sizes(r);
        let custom = if r.chance(1, 3) {
            Some(obj! {"build" => r.below(1000), "tags" => J::A(vec![J::from("x"), J::from("y")])})
        } else {
            None
        };
        v.push(TargetSpec {
            content: content_for(&name, size),
            name,
            custom,
        });
    }
    v
}

fn gen_deleg(r: &mut Rng, depth: usize, prefix: &str, opts: &GenOpts, used_roles: &mut Vec<String>, used_names: &mut Vec<String>, used_keys: &mut Vec<usize>) -> Option<DelegSpec> {
    let pool: Vec<&str> = if opts.odd_role_names {
        ROLE_NAMES.to_vec()
    } else {
        ROLE_NAMES[..2].iter().chain(["gamma", "delta", "eps", "zeta"].iter()).copied().collect()
    };
    let mut name = None;
    for _ in 0..20 {
        let cand = format!("{}{}", pool[r.usize(pool.len())], if depth > 1 { format!("-{depth}") } else { String::new() });
        if !used_roles.contains(&cand) {
            name = Some(cand);
            break;
        }
    }
    let name = name?;
    used_roles.push(name.clone());
    let nk = 1 + r.usize(3);
    let keys = pick_keys(r, nk, used_keys);
    let threshold = 1 + r.below(keys.len() as u64);
    // every role owns a directory-like prefix
    let my_prefix = format!("{prefix}{}/", ["p", "q", "r", "s"][r.usize(4)]);
    let nt = if opts.big_delegated && depth == 1 { 25 + r.usize(20) } else { r.usize(5) };
    // many distinct names for the big role
    let mut targets = gen_targets(r, &my_prefix, nt.min(8), opts, used_names);
    if nt > 8 {
        for i in 0..(nt - 8) {
            let n = format!("{my_prefix}bulk-{i}.bin");
            used_names.push(n.clone());
            targets.push(TargetSpec::new(&n, &content_for(&n, 40)));
        }
    }
    let mut children = Vec::new();
    if depth < opts.max_depth {
        for slot in 0..r.usize(3) {
            // siblings own disjoint sub-directories ("c0/", "c1/", …) of their parent's prefix
            let child_base = format!("{my_prefix}c{slot}");
            if let Some(c) = gen_deleg(r, depth + 1, &child_base, opts, used_roles, used_names, used_keys) {
                children.push(c);
            }
        }
    }
    Some(DelegSpec {
        name,
        signers: Some(keys.iter().take(threshold as usize).copied().collect()),
        keys,
        threshold,
        paths: Paths::Patterns(vec![format!("{my_prefix}*")]),
        // a terminating delegation only stops the search from moving on to later siblings; every name
        // lives under exactly one role's prefix chain here, so the flag never changes what is found
        terminating: r.chance(1, 3),
        version: 1 + r.below(3),
        expires: FAR.into(),
        targets,
        children,
    })
}

pub fn gen_spec(r: &mut Rng, opts: &GenOpts) -> RepoSpec {
    let mut used_names = Vec::new();
    let mut used_roles = Vec::new();
    let mut used_keys = vec![0, 1, 2, 3];
    let ntop = r.usize(7);
    let targets = gen_targets(r, "", ntop, opts, &mut used_names);
    let mut delegations = Vec::new();
    if opts.max_depth >= 1 {
        for _ in 0..r.usize(3) {
            // distinct prefixes per top-level delegation
            let prefix = format!("{}/", ["d1", "d2", "d3", "d4"][delegations.len()]);
            if let Some(d) = gen_deleg(r, 1, &prefix, opts, &mut used_roles, &mut used_names, &mut used_keys) {
                delegations.push(d);
            }
        }
    }
    RepoSpec {
        consistent: r.bool(),
        root_version: 1,
        ts_version: 1 + r.below(5),
        snap_version: 1 + r.below(5),
        tg_version: 1 + r.below(5),
        root_expires: FAR.into(),
        ts_expires: FAR.into(),
        snap_expires: FAR.into(),
        tg_expires: FAR.into(),
        keys: RootKeys::simple(),
        targets,
        delegations,
        pin_snapshot: Pin { hash: true, length: true },
        pin_targets: Pin { hash: r.bool(), length: r.bool() },
        style: Style::Pretty,
        extra_members: opts.extras,
        spare_deleg_keys: vec![],
    }
}

pub fn all_delegs<'a>(spec: &'a RepoSpec) -> Vec<&'a DelegSpec> {
    fn rec<'a>(d: &'a DelegSpec, out: &mut Vec<&'a DelegSpec>) {
        out.push(d);
        for c in &d.children {
            rec(c, out);
        }
    }
    let mut v = Vec::new();
    for d in &spec.delegations {
        rec(d, &mut v);
    }
    v
}

pub fn all_targets(spec: &RepoSpec) -> Vec<&TargetSpec> {
    let mut v: Vec<&TargetSpec> = spec.targets.iter().collect();
    for d in all_delegs(spec) {
        v.extend(d.targets.iter());
    }
    v
}

/// Key under which the in-memory transport must hold a target so that the client's own URL
/// joining finds it (the source repository of C19 is served from memory).
pub fn url_key(base: &str, filename: &str) -> Option<String> {
    let u = Url::parse(base).unwrap().join(filename).ok()?;
    let mut k = u.path().to_string();
    if let Some(q) = u.query() {
        k = format!("{k}?{q}");
    }
    if let Some(f) = u.fragment() {
        k = format!("{k}#{f}");
    }
    Some(k)
}

/// The name a conforming client puts into the URL: names with a `/../` detour are requested (and
/// stored) under their resolved form; every other generated name is used as it is.
pub fn requested_name(raw: &str) -> String {
    if raw.contains("/../") {
        // lexical resolution, independent of the library's: `seg/..` pairs cancel
        let mut out: Vec<&str> = Vec::new();
        for seg in raw.split('/') {
            if seg == ".." {
                out.pop();
            } else {
                out.push(seg);
            }
        }
        return out.join("/");
    }
    raw.to_string()
}

/// Re-key the target files of a built repository by what the client will request.
pub fn rekey_targets_for_url(built: &mut Built, spec: &RepoSpec) {
    let keys: Vec<String> = built.files.keys().filter(|k| k.starts_with("/targets/")).cloned().collect();
    for k in keys {
        built.files.remove(&k);
    }
    for t in all_targets(spec) {
        let name = requested_name(&t.name);
        let fname = if spec.consistent {
            format!("{}.{}", crate::json::sha256_hex(&t.content), name)
        } else {
            name
        };
        if let Some(key) = url_key(crate::memtransport::TARGETS_BASE, &fname) {
            built.files.insert(key, t.content.clone());
        }
    }
}
