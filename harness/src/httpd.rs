//! Minimal scripted HTTP/1.1 server on 127.0.0.1 for C18 (and the HTTP leg of C10).
//! One thread per connection; the script position of a resource advances at request time under a lock.

use std::collections::HashMap;
use std::io::{Read, Write};
use std::net::{TcpListener, TcpStream};
use std::sync::{Arc, Mutex};
use std::time::Duration;

#[derive(Clone, Debug, PartialEq, Eq)]
pub enum Item {
    /// 200 with the whole body. `honour`: if the request carries `Range: bytes=N-`, answer 206 + tail.
    Full { honour: bool },
    /// like Full but the connection goes silent after `k` body bytes (of the body actually being sent)
    Stall { k: usize, honour: bool },
    Status(u16),
}

#[derive(Clone, Debug)]
pub struct ReqLog {
    pub path: String,
    pub range: Option<String>,
    /// index of the script item that answered (None: beyond the script -> Full)
    pub item: usize,
    pub status_sent: u16,
}

pub struct Resource {
    pub body: Arc<Vec<u8>>,
    pub script: Vec<Item>,
    pub accept_ranges: bool,
    pub next: usize,
    pub log: Vec<ReqLog>,
}

#[derive(Default)]
pub struct State {
    pub resources: HashMap<String, Resource>,
    /// static directories: URL path prefix (ending in '/') -> directory; served like an ordinary web
    /// server does (query string dropped, path percent-decoded, no `..` segments)
    pub dirs: Vec<(String, std::path::PathBuf)>,
    /// requests answered from static directories: (request path as received, status)
    pub dir_log: Vec<(String, u16)>,
}

#[derive(Clone)]
pub struct Server {
    pub port: u16,
    pub state: Arc<Mutex<State>>,
}

impl Server {
    pub fn start() -> Server {
        let listener = TcpListener::bind("127.0.0.1:0").expect("bind loopback");
        let port = listener.local_addr().unwrap().port();
        let state: Arc<Mutex<State>> = Arc::new(Mutex::new(State::default()));
        let st = state.clone();
        std::thread::Builder::new()
            .name("verif-httpd".into())
            .spawn(move || {
                for conn in listener.incoming() {
                    let Ok(conn) = conn else { continue };
                    let st = st.clone();
                    let _ = std::thread::Builder::new().stack_size(256 * 1024).spawn(move || handle(conn, st));
                }
            })
            .expect("httpd thread");
        Server { port, state }
    }

    pub fn url(&self, path: &str) -> String {
        format!("http://127.0.0.1:{}{}", self.port, path)
    }

    pub fn add(&self, path: &str, body: Vec<u8>, script: Vec<Item>, accept_ranges: bool) {
        self.state.lock().unwrap().resources.insert(
            path.to_string(),
            Resource {
                body: Arc::new(body),
                script,
                accept_ranges,
                next: 0,
                log: Vec::new(),
            },
        );
    }

    pub fn add_dir(&self, prefix: &str, dir: &std::path::Path) {
        self.state.lock().unwrap().dirs.push((prefix.to_string(), dir.to_path_buf()));
    }

    /// Removes the directory and returns the requests that were answered from it.
    pub fn remove_dir(&self, prefix: &str) -> Vec<(String, u16)> {
        let mut g = self.state.lock().unwrap();
        g.dirs.retain(|(p, _)| p != prefix);
        let (mine, rest): (Vec<_>, Vec<_>) = std::mem::take(&mut g.dir_log).into_iter().partition(|(p, _)| p.starts_with(prefix));
        g.dir_log = rest;
        mine
    }

    pub fn take(&self, path: &str) -> Option<Resource> {
        self.state.lock().unwrap().resources.remove(path)
    }
}

fn read_request(conn: &mut TcpStream) -> Option<(String, Option<String>)> {
    conn.set_read_timeout(Some(Duration::from_secs(5))).ok()?;
    let mut buf = Vec::new();
    let mut tmp = [0u8; 1024];
    loop {
        let n = conn.read(&mut tmp).ok()?;
        if n == 0 {
            return None;
        }
        buf.extend_from_slice(&tmp[..n]);
        if buf.windows(4).any(|w| w == b"\r\n\r\n") {
            break;
        }
        if buf.len() > 64 * 1024 {
            return None;
        }
    }
    let text = String::from_utf8_lossy(&buf).to_string();
    let mut lines = text.split("\r\n");
    let reqline = lines.next()?;
    let mut parts = reqline.split(' ');
    let _method = parts.next()?;
    let path = parts.next()?.to_string();
    let mut range = None;
    for l in lines {
        if let Some((k, v)) = l.split_once(':') {
            if k.eq_ignore_ascii_case("range") {
                range = Some(v.trim().to_string());
            }
        }
    }
    Some((path, range))
}

fn handle(mut conn: TcpStream, st: Arc<Mutex<State>>) {
    let Some((path, range)) = read_request(&mut conn) else { return };
    // percent-decoded lookup as a second chance (a real web server decodes the path)
    let (item, body, accept_ranges) = {
        let mut g = st.lock().unwrap();
        let key = if g.resources.contains_key(&path) {
            Some(path.clone())
        } else {
            let dec = pct_decode(&path);
            g.resources.contains_key(&dec).then_some(dec)
        };
        let Some(key) = key else {
            // static directory?
            let no_query = path.split('?').next().unwrap_or("").to_string();
            let dec = pct_decode(&no_query);
            let file = g.dirs.iter().find(|(p, _)| dec.starts_with(p.as_str())).and_then(|(p, d)| {
                let rel = &dec[p.len()..];
                if rel.is_empty() || rel.split('/').any(|s| s == ".." || s == "." || s.is_empty()) || rel.contains('\0') {
                    return None;
                }
                Some(d.join(rel))
            });
            let body = file.and_then(|f| if f.is_file() { std::fs::read(&f).ok() } else { None });
            let status = if body.is_some() { 200 } else { 404 };
            if g.dirs.iter().any(|(p, _)| path.starts_with(p.as_str())) {
                g.dir_log.push((path.clone(), status));
            }
            drop(g);
            match body {
                Some(b) => {
                    let mut all = format!("HTTP/1.1 200 OK\r\nContent-Type: application/octet-stream\r\nContent-Length: {}\r\nConnection: close\r\n\r\n", b.len()).into_bytes();
                    all.extend_from_slice(&b);
                    let _ = conn.write_all(&all);
                    let _ = conn.flush();
                }
                None => {
                    let _ = conn.write_all(b"HTTP/1.1 404 Not Found\r\nContent-Length: 0\r\nConnection: close\r\n\r\n");
                }
            }
            return;
        };
        let r = g.resources.get_mut(&key).unwrap();
        let idx = r.next;
        r.next += 1;
        let item = r.script.get(idx).cloned().unwrap_or(Item::Full { honour: true });
        let status = match &item {
            Item::Status(s) => *s,
            Item::Full { honour } | Item::Stall { honour, .. } => {
                if *honour && range.is_some() {
                    206
                } else {
                    200
                }
            }
        };
        r.log.push(ReqLog {
            path: path.clone(),
            range: range.clone(),
            item: idx,
            status_sent: status,
        });
        (item, r.body.clone(), r.accept_ranges)
    };
    let _ = conn.set_nodelay(true);
    let ar = if accept_ranges { "Accept-Ranges: bytes\r\n" } else { "" };
    match item {
        Item::Status(s) => {
            let reason = match s {
                400 => "Bad Request",
                403 => "Forbidden",
                404 => "Not Found",
                410 => "Gone",
                416 => "Range Not Satisfiable",
                500 => "Internal Server Error",
                503 => "Service Unavailable",
                _ => "Status",
            };
            let _ = conn.write_all(format!("HTTP/1.1 {s} {reason}\r\n{ar}Content-Length: 0\r\nConnection: close\r\n\r\n").as_bytes());
        }
        Item::Full { honour } | Item::Stall { honour, .. } => {
            let mut start = 0usize;
            let mut partial = false;
            if honour {
                if let Some(r) = &range {
                    if let Some(n) = r.strip_prefix("bytes=").and_then(|x| x.strip_suffix('-')).and_then(|x| x.parse::<usize>().ok()) {
                        if n >= body.len() && !body.is_empty() {
                            let _ = conn.write_all(
                                format!("HTTP/1.1 416 Range Not Satisfiable\r\n{ar}Content-Range: bytes */{}\r\nContent-Length: 0\r\nConnection: close\r\n\r\n", body.len()).as_bytes(),
                            );
                            return;
                        }
                        start = n.min(body.len());
                        partial = true;
                    }
                }
            }
            let send = &body[start..];
            let head = if partial {
                format!(
                    "HTTP/1.1 206 Partial Content\r\n{ar}Content-Type: application/octet-stream\r\nContent-Range: bytes {}-{}/{}\r\nContent-Length: {}\r\nConnection: close\r\n\r\n",
                    start,
                    body.len().saturating_sub(1),
                    body.len(),
                    send.len()
                )
            } else {
                format!(
                    "HTTP/1.1 200 OK\r\n{ar}Content-Type: application/octet-stream\r\nContent-Length: {}\r\nConnection: close\r\n\r\n",
                    send.len()
                )
            };
            if let Item::Stall { k, .. } = item {
                let k = k.min(send.len());
                let mut first = head.into_bytes();
                first.extend_from_slice(&send[..k]);
                let _ = conn.write_all(&first);
                let _ = conn.flush();
                // hold the connection open until the client gives up (or 10 s)
                let _ = conn.set_read_timeout(Some(Duration::from_millis(200)));
                let mut b = [0u8; 16];
                for _ in 0..50 {
                    match conn.read(&mut b) {
                        Ok(0) => break,
                        Ok(_) => {}
                        Err(e) if e.kind() == std::io::ErrorKind::WouldBlock || e.kind() == std::io::ErrorKind::TimedOut => {}
                        Err(_) => break,
                    }
                }
            } else {
                let mut all = head.into_bytes();
                all.extend_from_slice(send);
                let _ = conn.write_all(&all);
                let _ = conn.flush();
            }
        }
    }
}

pub fn pct_decode(s: &str) -> String {
    let b = s.as_bytes();
    let mut out = Vec::with_capacity(b.len());
    let mut i = 0;
    while i < b.len() {
        if b[i] == b'%' && i + 2 < b.len() {
            let hv = |c: u8| (c as char).to_digit(16);
            if let (Some(h), Some(l)) = (hv(b[i + 1]), hv(b[i + 2])) {
                out.push((h * 16 + l) as u8);
                i += 3;
                continue;
            }
        }
        out.push(b[i]);
        i += 1;
    }
    String::from_utf8_lossy(&out).to_string()
}
