//! C05 — each role matches what the role above it pinned (no mix-and-match).

use crate::client::{self, LoadOpts};
use crate::forge::*;
use crate::json::{render, sha256_hex, shuffle_members, Style, J};
use crate::keys::{cached_sign, key};
use crate::memtransport::MemTransport;
use crate::obj;
use crate::rng::Rng;
use crate::run::*;
use std::collections::BTreeMap;
use std::time::{Duration, Instant};

#[derive(Clone, Copy, Debug, PartialEq, Eq)]
enum Variant {
    Orig,
    Reformat,
    Shuffled,
    ExtraSig,
}

const VARIANTS: [Variant; 4] = [Variant::Orig, Variant::Reformat, Variant::Shuffled, Variant::ExtraSig];
const PINS: [Pin; 4] = [
    Pin { hash: true, length: true },
    Pin { hash: true, length: false },
    Pin { hash: false, length: true },
    Pin { hash: false, length: false },
];

fn pin_name(p: Pin) -> &'static str {
    match (p.hash, p.length) {
        (true, true) => "digest+length",
        (true, false) => "digest",
        (false, true) => "length",
        _ => "none",
    }
}

#[derive(Clone, Debug)]
struct Case {
    a: u64,
    b: u64,
    c: u64,
    d: u64,
    pin_snap: Pin,
    pin_tg: Pin,
    var_snap: Variant,
    var_tg: Variant,
    var_d1: Variant,
    consistent: bool,
    d1_listed: bool,
    orig_pretty: bool,
}

const K_UNKNOWN: usize = 7;

/// Documents of one repository state (all roles at version `s`).
struct StateDocs {
    ts: J,
    snap: J,
    tg: J,
    d1: J,
}

fn state_docs(s: u64, c: &Case, style: Style) -> StateDocs {
    let keys = RootKeys::simple();
    let dcontent = format!("delegated content of state {s}").into_bytes();
    let d1_signed = targets_signed(s, FAR, vec![("d/x.txt".to_string(), target_entry(&dcontent, None))], None);
    let d1 = sign_with(&d1_signed, &[5]);
    let d1_bytes = render(&d1, style);
    let tcontent = format!("top-level content of state {s}, padded so that targets.json is the larger file ............").into_bytes();
    let delegs = delegations(
        &[5],
        vec![delegated_role_entry("d1", &[5], 1, &Paths::Patterns(vec!["d/*".into()]), false)],
    );
    let tg_signed = targets_signed(
        s,
        FAR,
        vec![
            ("a.txt".to_string(), target_entry(&tcontent, None)),
            ("b.txt".to_string(), target_entry(b"second", None)),
        ],
        Some(delegs),
    );
    let tg = sign_with(&tg_signed, &keys.targets.keys);
    let tg_bytes = render(&tg, style);
    let mut meta = vec![(
        "targets.json".to_string(),
        metafile(
            s,
            c.pin_tg.length.then_some(tg_bytes.len() as u64),
            c.pin_tg.hash.then(|| sha256_hex(&tg_bytes)).as_deref(),
        ),
    )];
    if c.d1_listed {
        meta.push((
            "d1.json".to_string(),
            metafile(
                s,
                c.pin_tg.length.then_some(d1_bytes.len() as u64),
                c.pin_tg.hash.then(|| sha256_hex(&d1_bytes)).as_deref(),
            ),
        ));
    }
    let snap = sign_with(&snapshot_signed(s, FAR, meta), &keys.snapshot.keys);
    let snap_bytes = render(&snap, style);
    let ts = sign_with(
        &timestamp_signed(
            s,
            FAR,
            metafile(
                s,
                c.pin_snap.length.then_some(snap_bytes.len() as u64),
                c.pin_snap.hash.then(|| sha256_hex(&snap_bytes)).as_deref(),
            ),
        ),
        &keys.timestamp.keys,
    );
    StateDocs { ts, snap, tg, d1 }
}

/// Bytes served for a document under a variant. Every variant keeps the signatures valid.
fn variant_bytes(env: &J, v: Variant, orig: Style, seed: u64) -> Vec<u8> {
    match v {
        Variant::Orig => render(env, orig),
        Variant::Reformat => render(env, if orig == Style::Pretty { Style::Compact } else { Style::Pretty }),
        Variant::Shuffled => {
            let mut e = env.clone();
            let mut r = Rng::new(seed);
            shuffle_members(&mut e, &mut r);
            render(&e, orig)
        }
        Variant::ExtraSig => {
            let mut e = env.clone();
            let msg = signed_bytes(e.at("signed"));
            e.at_mut("signatures")
                .items_mut()
                .push(sig_entry(&key(K_UNKNOWN).id(), &cached_sign(K_UNKNOWN, &msg)));
            render(&e, orig)
        }
    }
}

fn gen_cases(cfg: &Cfg) -> Vec<Case> {
    let mut v = Vec::new();
    // all 81 state combinations x pin configurations x consistent, original bytes
    for a in 1..=3 {
        for b in 1..=3 {
            for c in 1..=3 {
                for d in 1..=3 {
                    for (pi, ps) in PINS.iter().enumerate() {
                        for consistent in [false, true] {
                            v.push(Case {
                                a,
                                b,
                                c,
                                d,
                                pin_snap: *ps,
                                pin_tg: PINS[(pi + (a + b) as usize) % 4],
                                var_snap: Variant::Orig,
                                var_tg: Variant::Orig,
                                var_d1: Variant::Orig,
                                consistent,
                                d1_listed: true,
                                orig_pretty: (a + c) % 2 == 0,
                            });
                        }
                    }
                }
            }
        }
    }
    // same-state byte variants: every variant x pin x role
    for role in 0..3 {
        for var in VARIANTS {
            for ps in PINS {
                for pt in PINS {
                    for consistent in [false, true] {
                        for orig_pretty in [false, true] {
                            let mut c = Case {
                                a: 2,
                                b: 2,
                                c: 2,
                                d: 2,
                                pin_snap: ps,
                                pin_tg: pt,
                                var_snap: Variant::Orig,
                                var_tg: Variant::Orig,
                                var_d1: Variant::Orig,
                                consistent,
                                d1_listed: true,
                                orig_pretty,
                            };
                            match role {
                                0 => c.var_snap = var,
                                1 => c.var_tg = var,
                                _ => c.var_d1 = var,
                            }
                            v.push(c);
                        }
                    }
                }
            }
        }
    }
    // random mixtures of everything
    let n = cfg.tier.pick(6_000u64, 600_000);
    for i in 0..n {
        let mut r = Rng::for_case(cfg.seed, "C05", i);
        let same = r.chance(1, 2);
        let a = 1 + r.below(3);
        let pick = |r: &mut Rng| if same { a } else { 1 + r.below(3) };
        let b = pick(&mut r);
        let c = pick(&mut r);
        let d = pick(&mut r);
        v.push(Case {
            a,
            b,
            c,
            d,
            pin_snap: *r.pick(&PINS),
            pin_tg: *r.pick(&PINS),
            var_snap: *r.pick(&VARIANTS),
            var_tg: *r.pick(&VARIANTS),
            var_d1: *r.pick(&VARIANTS),
            consistent: r.bool(),
            d1_listed: !r.chance(1, 12),
            orig_pretty: r.bool(),
        });
    }
    v
}

fn run_case(w: &mut Worker, c: &Case, idx: u64) -> CaseOut {
    let mut out = CaseOut::default();
    let style = if c.orig_pretty { Style::Pretty } else { Style::Compact };
    let keys = RootKeys::simple();
    let root = sign_with(&root_signed(1, c.consistent, FAR, &keys), &keys.root.keys);
    let root_bytes = render(&root, style);
    let sa = state_docs(c.a, c, style);
    let sb = state_docs(c.b, c, style);
    let sc = state_docs(c.c, c, style);
    let sd = state_docs(c.d, c, style);
    let mut files = BTreeMap::new();
    files.insert(meta_path(c.consistent, 1, "root"), root_bytes.clone());
    files.insert(meta_path(c.consistent, c.a, "timestamp"), render(&sa.ts, style));
    // the client asks for the file named by the pinning document
    let snap_served = variant_bytes(&sb.snap, c.var_snap, style, idx);
    let tg_served = variant_bytes(&sc.tg, c.var_tg, style, idx + 1);
    let d1_served = variant_bytes(&sd.d1, c.var_d1, style, idx + 2);
    let snap_path = meta_path(c.consistent, c.a, "snapshot");
    let tg_path = meta_path(c.consistent, c.b, "targets");
    let d1_path = meta_path(c.consistent, c.b, "d1");
    files.insert(snap_path.clone(), snap_served.clone());
    files.insert(tg_path.clone(), tg_served.clone());
    files.insert(d1_path.clone(), d1_served.clone());
    let t = MemTransport::new(files);
    let dir = w.case_dir();
    let res = w.rt.block_on(client::load(&root_bytes, &t, &dir, &LoadOpts::default(), client::watchdog(w.cfg.tier)));
    out.evals = 1;

    // expectation by construction, first mismatch in client order
    let snap_orig = render(&sa.snap, style); // what timestamp a pinned
    let tg_orig = render(&sb.tg, style); // what snapshot b pinned
    let mut mismatch: Option<(&str, &str)> = None;
    if c.b != c.a {
        mismatch = Some(("timestamp->snapshot", "version"));
    } else if c.pin_snap.hash && sha256_hex(&snap_served) != sha256_hex(&snap_orig) {
        mismatch = Some(("timestamp->snapshot", "digest"));
    } else if c.pin_snap.length && snap_served.len() > snap_orig.len() {
        mismatch = Some(("timestamp->snapshot", "length"));
    } else if c.c != c.b {
        mismatch = Some(("snapshot->targets", "version"));
    } else if c.pin_tg.hash && sha256_hex(&tg_served) != sha256_hex(&tg_orig) {
        mismatch = Some(("snapshot->targets", "digest"));
    } else if c.pin_tg.length && tg_served.len() > tg_orig.len() {
        mismatch = Some(("snapshot->targets", "length"));
    } else if !c.d1_listed {
        mismatch = Some(("snapshot->delegated", "not-listed"));
    } else if c.d != c.b {
        mismatch = Some(("snapshot->delegated", "version"));
    }
    let observed = match &res {
        Ok(_) => "ok".to_string(),
        Err(e) => format!("{}: {}", e.class(), e.text()),
    };
    // a delegated role longer than the length its snapshot entry lists: C05 does not speak about it
    // (C09 does: it must be refused), so no expectation either way here
    let d1_orig = render(&sb.d1, style);
    let deleg_len_exceeded = mismatch.is_none() && c.d1_listed && c.pin_tg.length && d1_served.len() > d1_orig.len();
    if deleg_len_exceeded {
        out.h("delegated-longer-than-listed-length(unjudged here, see C09)");
    }
    match (&res, mismatch) {
        (Err(client::LoadErr::Watchdog), _) => out.inconc("watchdog"),
        (_, None) if deleg_len_exceeded => {}
        (Ok(_), Some((pin, what))) => out.viol(
            format!("mismatch-accepted:pin={pin}:what={what}"),
            format!("states (ts,snap,tg,d1)=({},{},{},{}) pins snap={} tg={} variants {:?}/{:?}/{:?}: load succeeded", c.a, c.b, c.c, c.d, pin_name(c.pin_snap), pin_name(c.pin_tg), c.var_snap, c.var_tg, c.var_d1),
        ),
        (Err(e), None) => out.viol(
            format!(
                "match-refused:variants={:?}/{:?}/{:?}",
                c.var_snap, c.var_tg, c.var_d1
            ),
            format!("all pinned constraints satisfied (pins snap={} tg={}) but load failed: {}", pin_name(c.pin_snap), pin_name(c.pin_tg), e.text()),
        ),
        _ => {}
    }
    // fetch-log rule under consistent snapshots
    if c.consistent {
        let log = t.log_paths();
        for (suffix, expect) in [(".snapshot.json", &snap_path), (".targets.json", &tg_path), (".d1.json", &d1_path)] {
            for p in &log {
                if p.ends_with(suffix) && p != expect {
                    out.viol(
                        "wrong-file-requested:consistent",
                        format!("requested {p}, the pinning document names {expect}"),
                    );
                }
            }
        }
    }
    if c.var_d1 != Variant::Orig && c.pin_tg.hash && res.is_ok() {
        out.obs("delegated-role-digest-not-enforced (statement only requires version + listing)");
    }
    let mm = mismatch.map_or("none".to_string(), |(p, w)| format!("{p}:{w}"));
    out.h(format!("mismatch={mm}"));
    out.h(format!("pin-snapshot={}", pin_name(c.pin_snap)));
    out.h(format!("pin-targets={}", pin_name(c.pin_tg)));
    for (n, v) in [("snapshot", c.var_snap), ("targets", c.var_tg), ("d1", c.var_d1)] {
        if v != Variant::Orig {
            out.h(format!("variant={n}:{v:?}"));
        }
    }
    out.h(if c.consistent { "consistent=true" } else { "consistent=false" });
    out.fingerprint = Some(format!("{c:?}"));
    out.nontrivial = !(c.a == c.b && c.b == c.c && c.c == c.d)
        || c.var_snap != Variant::Orig
        || c.var_tg != Variant::Orig
        || c.var_d1 != Variant::Orig
        || !c.d1_listed;
    out.desc = Some(obj! {
        "served_states(timestamp,snapshot,targets,d1)" => format!("({},{},{},{})", c.a, c.b, c.c, c.d),
        "timestamp_pins_snapshot" => pin_name(c.pin_snap), "snapshot_pins_targets" => pin_name(c.pin_tg),
        "byte_variants(snapshot,targets,d1)" => format!("{:?}/{:?}/{:?}", c.var_snap, c.var_tg, c.var_d1),
        "d1_listed_in_snapshot" => c.d1_listed,
        "consistent_snapshot" => c.consistent,
        "expected_mismatch" => mm,
        "observed" => observed,
        "requests" => J::A(t.log_paths().into_iter().map(J::S).collect()),
    });
    w.cleanup(&dir);
    out
}

pub fn run(cfg: &Cfg) -> i32 {
    let start = Instant::now();
    let _ = crate::keys::pool();
    let cases = gen_cases(cfg);
    let budget = cfg.tier.pick(Duration::from_secs(240), Duration::from_secs(1200));
    let ev = par_run(cfg, cases.len() as u64, budget, |w, i| cases.get(i as usize).map(|c| run_case(w, c, i)));
    let mut required: Vec<String> = vec![
        "mismatch=none".into(),
        "mismatch=timestamp->snapshot:version".into(),
        "mismatch=timestamp->snapshot:digest".into(),
        "mismatch=timestamp->snapshot:length".into(),
        "mismatch=snapshot->targets:version".into(),
        "mismatch=snapshot->targets:digest".into(),
        "mismatch=snapshot->targets:length".into(),
        "mismatch=snapshot->delegated:version".into(),
        "mismatch=snapshot->delegated:not-listed".into(),
        "consistent=true".into(),
        "consistent=false".into(),
    ];
    for p in ["digest+length", "digest", "length", "none"] {
        required.push(format!("pin-snapshot={p}"));
        required.push(format!("pin-targets={p}"));
    }
    finish(
        cfg,
        ev,
        Finish {
            level: "exploration",
            rule: "individually valid, correctly signed files of three repository states are combined: timestamp of state a, snapshot of b, targets of c, delegated role of d — all 81 combinations x 4 pin configurations (digest+length / digest / length / none) x both consistent-snapshot settings; same-state byte variants that keep signatures valid (re-formatted, members shuffled, extra signature by an unknown key) for every role x pin x variant; seeded random mixtures incl. a delegated role missing from the snapshot. Oracle by construction from the served bytes; fetch-log rule under consistent snapshots. Non-trivial = not all from one state, or a byte variant, or the unlisted role.",
            assumptions: vec![
                "for delegated roles the statement requires version equality and listing only; digest pins of delegated roles are recorded as an observation".into(),
            ],
            required_hist: required,
            min_evaluations: 2000,
        },
        start.elapsed(),
    )
}
