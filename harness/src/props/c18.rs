//! C18 — HTTP transport yields exactly the resource bytes or an error, retries bounded.

use crate::httpd::{Item, Server};
use crate::json::J;
use crate::obj;
use crate::rng::Rng;
use crate::run::*;
use futures::StreamExt;
use std::sync::OnceLock;
use std::time::{Duration, Instant};
use tough::{HttpTransportBuilder, Transport, TransportErrorKind};
use url::Url;

static SERVER: OnceLock<Server> = OnceLock::new();
fn server() -> &'static Server {
    SERVER.get_or_init(Server::start)
}

const CLIENT_TIMEOUT_MS: u64 = 700;
/// Suspected violations are confirmed with a client time-out that no scheduling delay of a loaded
/// machine reaches: the transport's retry logic does not depend on the length of the time-out, so a
/// genuine violation reproduces, while "the server thread was starved and the client gave up first"
/// does not.
const CONFIRM_TIMEOUT_MS: u64 = 6000;

#[derive(Clone, Debug)]
struct Case {
    script: Vec<Item>,
    accept_ranges: bool,
    size: usize,
    tries: u32,
}

fn item_name(i: &Item) -> String {
    match i {
        Item::Full { honour } => format!("200-full{}", if *honour { "(honours-range)" } else { "" }),
        Item::Stall { k, honour } => format!("200-stall@{k}{}", if *honour { "(honours-range)" } else { "" }),
        Item::Status(s) => s.to_string(),
    }
}

fn item_kind(i: &Item) -> &'static str {
    match i {
        Item::Full { .. } => "200-full",
        Item::Stall { k: 0, .. } => "stall-before-first-byte",
        Item::Stall { .. } => "stall-mid-body",
        Item::Status(500) => "500",
        Item::Status(503) => "503",
        Item::Status(403) => "403",
        Item::Status(404) => "404",
        Item::Status(410) => "410",
        Item::Status(400) => "400",
        Item::Status(416) => "416",
        Item::Status(_) => "other-status",
    }
}

fn alphabet(size: usize, accept_ranges: bool) -> Vec<Item> {
    let mut v = Vec::new();
    let honours: &[bool] = if accept_ranges { &[false, true] } else { &[false] };
    for &h in honours {
        v.push(Item::Full { honour: h });
        let mut ks = vec![0usize];
        if size > 1 {
            ks.push(1);
            ks.push(size / 2);
            ks.push(size - 1);
        }
        ks.dedup();
        for k in ks {
            v.push(Item::Stall { k, honour: h });
        }
    }
    for s in [500u16, 503, 403, 404, 410, 400, 416] {
        v.push(Item::Status(s));
    }
    v
}

fn gen_cases(cfg: &Cfg) -> Vec<Case> {
    let mut v = Vec::new();
    // all scripts up to length 2 (quick) / 3 (thorough) for one mid size, both range settings, tries 1..4 rotated
    let maxlen = cfg.tier.pick(2, 3);
    let mut rr = 0usize;
    for accept_ranges in [false, true] {
        let al = alphabet(1024, accept_ranges);
        let mut scripts: Vec<Vec<Item>> = vec![vec![]];
        let mut frontier: Vec<Vec<Item>> = vec![vec![]];
        for _ in 0..maxlen {
            let mut next = Vec::new();
            for s in &frontier {
                // a script never continues after a complete answer or a terminal status
                if let Some(last) = s.last() {
                    if matches!(last, Item::Full { .. }) || matches!(last, Item::Status(400 | 403 | 404 | 410 | 416)) {
                        continue;
                    }
                }
                for a in &al {
                    let mut t = s.clone();
                    t.push(a.clone());
                    next.push(t);
                }
            }
            scripts.extend(next.iter().cloned());
            frontier = next;
        }
        for s in scripts {
            rr += 1;
            v.push(Case {
                script: s,
                accept_ranges,
                size: 1024,
                tries: 1 + (rr % 4) as u32,
            });
        }
    }
    // seeded: sizes 0..256 KiB, scripts up to tries+2
    let n = cfg.tier.pick(1_500u64, 60_000);
    for i in 0..n {
        let mut r = Rng::for_case(cfg.seed, "C18", i);
        let size = *r.pick(&[0usize, 1, 1024, 65536, 262_144]);
        let accept_ranges = r.bool();
        let tries = 1 + r.below(4) as u32;
        let al = alphabet(size, accept_ranges);
        let len = r.usize(tries as usize + 3);
        let mut script = Vec::new();
        for _ in 0..len {
            // bias towards transient failures so that retries are exercised
            let it = if r.chance(1, 2) {
                match r.usize(4) {
                    0 => Item::Status(500),
                    1 => Item::Status(503),
                    2 => Item::Stall { k: 0, honour: accept_ranges && r.bool() },
                    _ => Item::Stall {
                        k: if size > 1 { 1 + r.usize(size - 1) } else { 0 },
                        honour: accept_ranges && r.bool(),
                    },
                }
            } else {
                al[r.usize(al.len())].clone()
            };
            script.push(it);
        }
        v.push(Case {
            script,
            accept_ranges,
            size,
            tries,
        });
    }
    v
}

struct Obs {
    got: Vec<u8>,
    err: Option<(TransportErrorKind, String)>,
    log: Vec<crate::httpd::ReqLog>,
}

async fn fetch_case(id: String, c: &Case, body: Vec<u8>, timeout_ms: u64) -> Obs {
    let srv = server();
    let path = format!("/c18/{id}");
    srv.add(&path, body, c.script.clone(), c.accept_ranges);
    let transport = HttpTransportBuilder::new()
        .tries(c.tries)
        .timeout(Duration::from_millis(timeout_ms))
        .connect_timeout(Duration::from_millis(2000))
        .initial_backoff(Duration::from_millis(1))
        .max_backoff(Duration::from_millis(2))
        .build();
    let url = Url::parse(&srv.url(&path)).unwrap();
    let mut got = Vec::new();
    let mut err = None;
    let run = async {
        match transport.fetch(url).await {
            Err(e) => err = Some((e.kind(), e.to_string())),
            Ok(mut s) => {
                while let Some(item) = s.next().await {
                    match item {
                        Ok(b) => got.extend_from_slice(&b),
                        Err(e) => {
                            err = Some((e.kind(), crate::client::full_error(&e)));
                            break;
                        }
                    }
                }
            }
        }
    };
    let timed = tokio::time::timeout(Duration::from_secs(30 + 6 * timeout_ms / 1000), run).await;
    if timed.is_err() {
        err = Some((TransportErrorKind::Other, "HARNESS-WATCHDOG".into()));
    }
    let log = srv.take(&path).map(|r| r.log).unwrap_or_default();
    Obs { got, err, log }
}

/// Must a compliant client end with the complete resource? (None = no expectation)
fn must_succeed(c: &Case) -> Option<bool> {
    let mut delivered = 0usize;
    let mut announced = false;
    for i in 0..c.tries as usize {
        let item = c.script.get(i).cloned().unwrap_or(Item::Full { honour: true });
        match item {
            Item::Status(500 | 503) => {
                // a 5xx answer carries the Accept-Ranges header too when the server supports ranges
                announced |= c.accept_ranges;
            }
            Item::Status(_) => return Some(false),
            Item::Full { honour } => {
                if delivered == 0 {
                    return Some(true);
                }
                // resumed request: only a server that honours the range can complete it
                return if announced && honour { Some(true) } else { Some(false) };
            }
            Item::Stall { k, honour } => {
                announced |= c.accept_ranges;
                let sending_from = if honour && announced && delivered > 0 { delivered } else { 0 };
                if delivered > 0 && sending_from == 0 {
                    // a resumed request answered from the start: cannot be used
                    return Some(false);
                }
                let avail = c.size - sending_from;
                delivered = sending_from + k.min(avail);
                if k >= avail && avail > 0 {
                    // the whole remaining body arrived before the stall; whether the client notices
                    // completion depends on Content-Length handling: no expectation
                    return None;
                }
                if delivered > 0 && !c.accept_ranges {
                    return Some(false); // mid-body failure without range support cannot be recovered
                }
            }
        }
    }
    Some(false)
}

fn judge(c: &Case, body: &[u8], o: &Obs, out: &mut CaseOut) {
    out.evals += 1;
    if let Some((_, t)) = &o.err {
        if t == "HARNESS-WATCHDOG" {
            out.inconc("watchdog");
            return;
        }
    }
    // R1 prefix / equality
    if !body.starts_with(&o.got) {
        let dup = o.got.len() > body.len() && o.got[..].ends_with(body) && body.starts_with(&o.got[..o.got.len() - body.len()]);
        let resumed_full = o.log.iter().any(|l| l.range.is_some() && l.status_sent == 200);
        out.viol(
            if dup && resumed_full {
                "duplicate-bytes:resume=200-full".to_string()
            } else if dup {
                "duplicate-bytes".to_string()
            } else {
                "not-a-prefix-of-the-resource".to_string()
            },
            format!("yielded {} bytes for a resource of {} bytes; requests {:?}", o.got.len(), body.len(), o.log.iter().map(|l| (l.range.clone(), l.status_sent)).collect::<Vec<_>>()),
        );
    } else if o.err.is_none() && o.got.len() != body.len() {
        out.viol("incomplete-without-error", format!("stream ended without error after {} of {} bytes", o.got.len(), body.len()));
    }
    // R2 tries
    if o.log.len() as u32 > c.tries {
        out.viol("requests>tries", format!("{} requests with tries={}", o.log.len(), c.tries));
    }
    // R3 range only after announcement
    let mut announced = false;
    for l in &o.log {
        if l.range.is_some() && !announced {
            out.viol("range-without-announcement", format!("Range {:?} sent although no earlier response announced Accept-Ranges", l.range));
        }
        // every response of a range-supporting server carries the header
        announced |= c.accept_ranges;
    }
    // R4 nothing after a terminal status
    for (i, l) in o.log.iter().enumerate() {
        if matches!(l.status_sent, 400 | 403 | 404 | 410 | 416) && i + 1 < o.log.len() {
            out.viol(format!("request-after-terminal:status={}", l.status_sent), format!("{} requests, #{i} was answered {}", o.log.len(), l.status_sent));
        }
    }
    // R5 error kind
    if let (Some(last), Some((kind, text))) = (o.log.last(), &o.err) {
        match last.status_sent {
            403 | 404 | 410 => {
                if *kind != TransportErrorKind::FileNotFound {
                    out.viol(format!("wrong-kind:status={}", last.status_sent), format!("kind {kind:?}: {text}"));
                }
            }
            400 | 416 => {
                if *kind == TransportErrorKind::FileNotFound {
                    out.viol(format!("wrong-kind:status={}", last.status_sent), format!("kind {kind:?}: {text}"));
                }
            }
            _ => {}
        }
    }
    // R6 completeness
    match must_succeed(c) {
        Some(true) => {
            out.h("expect=complete");
            if let Some((_, text)) = &o.err {
                // a time-out although the answering item was not a stall: machine load, not a verdict
                let last_item = o.log.last().and_then(|l| c.script.get(l.item).cloned()).unwrap_or(Item::Full { honour: true });
                if text.contains("timed out") && !matches!(last_item, Item::Stall { .. }) {
                    out.inconc("client time-out on a non-stalled response");
                } else {
                    out.viol("recoverable-failed", format!("transient failures within the retry budget followed by a complete answer, yet: {text}"));
                }
            }
        }
        Some(false) => {
            out.h("expect=error");
            if o.err.is_none() && o.got == body {
                // completing although the script does not allow it would be surprising but is not a
                // violation of the statement (bytes are right); record only
                out.obs("completed-although-not-required");
            }
        }
        None => out.h("expect=unspecified"),
    }
}

fn run_batch(w: &mut Worker, cases: &[Case], first_index: u64) -> CaseOut {
    let mut out = CaseOut::default();
    let bodies: Vec<Vec<u8>> = cases.iter().enumerate().map(|(k, c)| Rng::new(first_index + k as u64).bytes(c.size)).collect();
    let mut obs: Vec<Obs> = w.rt.block_on(async {
        let futs = cases
            .iter()
            .enumerate()
            .map(|(k, c)| fetch_case(format!("{}-{}", first_index, k), c, bodies[k].clone(), CLIENT_TIMEOUT_MS));
        futures::future::join_all(futs).await
    });
    let mut samples = Vec::new();
    for (k, c) in cases.iter().enumerate() {
        // judge into a scratch record first: anything that looks like a violation is confirmed by
        // re-running that fetch ALONE (no concurrent fetches); only what reproduces is reported
        let mut first = CaseOut::default();
        judge(c, &bodies[k], &obs[k], &mut first);
        if first.viols.is_empty() {
            out.evals += first.evals;
            out.hist.extend(first.hist);
            out.inconclusive.extend(first.inconclusive);
            out.observations.extend(first.observations);
        } else {
            let again = w.rt.block_on(fetch_case(format!("{}-{}-again", first_index, k), c, bodies[k].clone(), CONFIRM_TIMEOUT_MS));
            let mut second = CaseOut::default();
            judge(c, &bodies[k], &again, &mut second);
            out.evals += first.evals + second.evals;
            out.hist.extend(second.hist.clone());
            out.inconclusive.extend(second.inconclusive.clone());
            let script: Vec<String> = c.script.iter().map(item_name).collect();
            for v in &first.viols {
                if second.viols.iter().any(|s| s.signature == v.signature) {
                    out.viol(
                        v.signature.clone(),
                        format!("{} | script {:?} accept_ranges={} size={} tries={} (reproduced in isolation)", v.detail, script, c.accept_ranges, c.size, c.tries),
                    );
                } else {
                    out.inconc(format!("not reproduced in isolation: {}", v.signature.split(':').next().unwrap_or("")));
                }
            }
            out.h("re-run-in-isolation");
            obs[k] = again;
        }
        for it in &c.script {
            out.h(format!("item={}", item_kind(it)));
        }
        out.h(format!("tries={}", c.tries));
        out.h(format!("size={}", c.size));
        out.h(format!("accept-ranges={}", c.accept_ranges));
        if obs[k].log.iter().any(|l| l.range.is_some()) {
            out.h("resumed-with-range");
        }
        if samples.len() < 3 {
            samples.push(obj! {
                "script" => J::A(c.script.iter().map(|i| J::S(item_name(i))).collect()),
                "accept_ranges" => c.accept_ranges, "size" => c.size, "tries" => c.tries as u64,
                "requests" => J::A(obs[k].log.iter().map(|l| obj!{"range" => l.range.clone().map_or(J::Null, J::S), "status" => l.status_sent as u64}).collect()),
                "bytes_yielded" => obs[k].got.len(),
                "result" => obs[k].err.as_ref().map_or("ended without error".to_string(), |(kd, t)| format!("{kd:?}: {t}")),
            });
        }
    }
    out.fingerprint = Some(format!("{:?}", cases.iter().map(|c| (c.script.iter().map(item_name).collect::<Vec<_>>(), c.accept_ranges, c.size, c.tries)).collect::<Vec<_>>()));
    out.nontrivial = cases.iter().any(|c| c.script.iter().any(|i| !matches!(i, Item::Full { .. })));
    out.desc = Some(obj! {"fetches_in_this_batch" => cases.len(), "first" => J::A(samples)});
    out
}

pub fn run(cfg: &Cfg) -> i32 {
    let start = Instant::now();
    let _ = server();
    let cases = gen_cases(cfg);
    const BATCH: usize = 6;
    let nb = cases.len().div_ceil(BATCH);
    let budget = cfg.tier.pick(Duration::from_secs(600), Duration::from_secs(3000));
    let mut ev = par_run(cfg, nb as u64, budget, |w, i| {
        let lo = i as usize * BATCH;
        if lo >= cases.len() {
            return None;
        }
        let hi = (lo + BATCH).min(cases.len());
        Some(run_batch(w, &cases[lo..hi], lo as u64))
    });
    ev.extra.push(("fetches".into(), J::U(cases.len() as u64)));
    let mut required: Vec<String> = Vec::new();
    for k in ["200-full", "stall-before-first-byte", "stall-mid-body", "500", "503", "403", "404", "410", "400", "416"] {
        required.push(format!("item={k}"));
    }
    for t in 1..=4 {
        required.push(format!("tries={t}"));
    }
    for s in [0, 1, 1024, 65536, 262_144] {
        required.push(format!("size={s}"));
    }
    required.push("accept-ranges=true".into());
    required.push("accept-ranges=false".into());
    required.push("resumed-with-range".into());
    required.push("expect=complete".into());
    required.push("expect=error".into());
    finish(
        cfg,
        ev,
        Finish {
            level: "fault_enumeration",
            rule: "HttpTransport::fetch of the real crate against a scripted loopback HTTP/1.1 server (one thread per connection, request line and Range header logged): every script up to length 2 (quick) / 3 (thorough) over {200 full, 200 stalled after 0/1/mid/len-1 bytes, 500, 503, 403, 404, 410, 400, 416} — with Accept-Ranges each 200 item in a literal flavour (ignores Range) and one that honours Range with 206 — for a 1 KiB resource with tries rotating 1..4, plus seeded scripts up to tries+2 for sizes 0/1/1 KiB/64 KiB/256 KiB. Oracle over the yielded items and the server's request log: prefix/equality, requests <= tries, Range only after an announcement, nothing after 400/416/403/404/410, error kind, completion when the transient failures fit the retry budget. One evaluation = one fetch. Fingerprint = batch of (script, ranges, size, tries).",
            assumptions: vec![
                "client time-out 700 ms; a time-out on a non-stalled response is inconclusive (machine load), never a violation; every suspected violation is re-run alone with a 6 s time-out and reported only if the same signature reproduces (the retry logic does not depend on the length of the time-out, scheduling delays do)".into(),
                "a stall after the complete body has been sent leaves the expectation unspecified".into(),
            ],
            required_hist: required,
            min_evaluations: 500,
        },
        start.elapsed(),
    )
}
