//! C07 — a delegated role can only provide targets inside its delegated paths.

use crate::client::{self, LoadOpts};
use crate::forge::*;
use crate::json::{render, sha256_hex, Style, J};
use crate::memtransport::MemTransport;
use crate::obj;
use crate::rng::Rng;
use crate::run::*;
use futures::StreamExt;
use std::collections::BTreeMap;
use std::time::{Duration, Instant};
use tough::TargetName;

#[derive(Clone, Debug)]
enum PathItem {
    Pattern(String),
    HashPrefix(String),
}

#[derive(Clone, Debug)]
struct Node {
    name: String,
    /// path set under which the PARENT delegates to this node (unused for the top)
    paths: Vec<PathItem>,
    hash_kind: bool,
    listed: Vec<String>,
    children: Vec<Node>,
    depth: usize,
}

const POOL: [&str; 9] = ["a", "b", "a/../b", "d/x", "d/y", "x.txt", "dd", "ab", "d/../d/x"];
const PATTERNS: [&str; 12] = ["*", "d/*", "*.txt", "?", "a?", "d/?", "a", "b", "d/x", "dd", "*/x", "??"];

/// Resolution of `..` segments as the property describes it (names here never start with `/`).
fn resolve(name: &str) -> String {
    let mut out: Vec<&str> = Vec::new();
    for seg in name.split('/') {
        match seg {
            "" | "." => {}
            ".." => {
                out.pop();
            }
            s => out.push(s),
        }
    }
    out.join("/")
}

/// Simple glob matcher for patterns made of literals, `*` and `?`.
fn glob(pat: &[char], s: &[char], cross: bool) -> bool {
    match pat.first() {
        None => s.is_empty(),
        Some('*') => {
            // zero or more characters (not '/' unless `cross`)
            if glob(&pat[1..], s, cross) {
                return true;
            }
            let mut i = 0;
            while i < s.len() {
                if s[i] == '/' && !cross {
                    return false;
                }
                i += 1;
                if glob(&pat[1..], &s[i..], cross) {
                    return true;
                }
            }
            false
        }
        Some('?') => !s.is_empty() && (cross || s[0] != '/') && glob(&pat[1..], &s[1..], cross),
        Some(c) => !s.is_empty() && s[0] == *c && glob(&pat[1..], &s[1..], cross),
    }
}

fn matches(paths: &[PathItem], resolved: &str, cross: bool) -> bool {
    paths.iter().any(|p| match p {
        PathItem::Pattern(pt) => {
            let pc: Vec<char> = pt.chars().collect();
            let sc: Vec<char> = resolved.chars().collect();
            glob(&pc, &sc, cross)
        }
        PathItem::HashPrefix(h) => sha256_hex(resolved.as_bytes()).starts_with(h.as_str()),
    })
}

/// Reference pre-order lookup with pruning. Returns (role name, depth) of the entry.
fn ref_find(n: &Node, raw: &str, cross: bool) -> Option<(String, usize)> {
    if n.listed.iter().any(|l| l == raw) {
        return Some((n.name.clone(), n.depth));
    }
    let resolved = resolve(raw);
    for c in &n.children {
        if !matches(&c.paths, &resolved, cross) {
            continue;
        }
        if let Some(r) = ref_find(c, raw, cross) {
            return Some(r);
        }
    }
    None
}

fn content(role: &str, raw: &str) -> Vec<u8> {
    format!("content of {raw:?} as listed by role {role}").into_bytes()
}

fn gen_node(r: &mut Rng, depth: usize, counter: &mut usize, maxdepth: usize) -> Node {
    let name = if depth == 0 { "targets".to_string() } else { format!("r{}", *counter) };
    *counter += 1;
    let hash_kind = depth > 0 && r.chance(1, 4);
    let mut paths = Vec::new();
    if depth > 0 {
        let n = 1 + r.usize(2);
        for _ in 0..n {
            if hash_kind {
                let base = sha256_hex(resolve(POOL[r.usize(POOL.len())]).as_bytes());
                let len = 1 + r.usize(2);
                if r.chance(3, 4) {
                    paths.push(PathItem::HashPrefix(base[..len].to_string()));
                } else {
                    paths.push(PathItem::HashPrefix(format!("{:0width$x}", r.below(1 << (4 * len)), width = len)));
                }
            } else {
                paths.push(PathItem::Pattern(PATTERNS[r.usize(PATTERNS.len())].to_string()));
            }
        }
    }
    let nchildren = if depth >= maxdepth { 0 } else { r.usize(4) };
    let children = (0..nchildren).map(|_| gen_node(r, depth + 1, counter, maxdepth)).collect();
    Node {
        name,
        paths,
        hash_kind,
        listed: vec![],
        children,
        depth,
    }
}

fn all_nodes<'a>(n: &'a Node, out: &mut Vec<&'a Node>) {
    out.push(n);
    for c in &n.children {
        all_nodes(c, out);
    }
}

fn place(n: &mut Node, idx: &mut usize, target_idx: usize, raw: &str) {
    if *idx == target_idx {
        if !n.listed.iter().any(|l| l == raw) {
            n.listed.push(raw.to_string());
        }
    }
    *idx += 1;
    for c in n.children.iter_mut() {
        place(c, idx, target_idx, raw);
    }
}

fn key_for(role: &str) -> usize {
    4 + (crate::rng::fnv(role) % 12) as usize
}

fn build_files(n: &Node, consistent: bool, files: &mut BTreeMap<String, Vec<u8>>, meta: &mut Vec<(String, J)>, served: &BTreeMap<String, Vec<u8>>) {
    for c in &n.children {
        build_files(c, consistent, files, meta, served);
    }
    let delegs = if n.children.is_empty() {
        None
    } else {
        let mut tk: Vec<usize> = Vec::new();
        for c in &n.children {
            let k = key_for(&c.name);
            if !tk.contains(&k) {
                tk.push(k);
            }
        }
        Some(delegations(
            &tk,
            n.children
                .iter()
                .map(|c| {
                    let p = if c.hash_kind {
                        Paths::HashPrefixes(c.paths.iter().map(|p| match p {
                            PathItem::HashPrefix(h) => h.clone(),
                            PathItem::Pattern(p) => p.clone(),
                        }).collect())
                    } else {
                        Paths::Patterns(c.paths.iter().map(|p| match p {
                            PathItem::Pattern(p) => p.clone(),
                            PathItem::HashPrefix(h) => h.clone(),
                        }).collect())
                    };
                    delegated_role_entry(&c.name, &[key_for(&c.name)], 1, &p, false)
                })
                .collect(),
        ))
    };
    let entries: Vec<(String, J)> = n.listed.iter().map(|raw| (raw.clone(), target_entry(&content(&n.name, raw), None))).collect();
    let doc = targets_signed(1, FAR, entries, delegs);
    let signer = if n.depth == 0 { 3 } else { key_for(&n.name) };
    files.insert(meta_path(consistent, 1, &n.name), render(&sign_with(&doc, &[signer]), Style::Compact));
    meta.push((format!("{}.json", n.name), metafile(1, None, None)));
    let _ = served;
}

fn describe_tree(n: &Node) -> J {
    obj! {
        "role" => n.name.as_str(),
        "delegated_paths" => J::A(n.paths.iter().map(|p| J::S(match p { PathItem::Pattern(p) => format!("pattern {p}"), PathItem::HashPrefix(h) => format!("hash-prefix {h}") })).collect()),
        "lists" => J::A(n.listed.iter().map(|l| J::S(l.clone())).collect()),
        "delegates" => J::A(n.children.iter().map(describe_tree).collect()),
    }
}

fn shape(n: &Node) -> String {
    format!("({})", n.children.iter().map(shape).collect::<Vec<_>>().join(""))
}

fn run_case(w: &mut Worker, i: u64) -> CaseOut {
    let mut out = CaseOut::default();
    let mut r = Rng::for_case(w.cfg.seed, "C07", i);
    let consistent = r.bool();
    let maxdepth = 1 + r.usize(3);
    let mut counter = 0;
    let mut tree = gen_node(&mut r, 0, &mut counter, maxdepth);
    let nroles = counter;
    // placements
    let nplace = 1 + r.usize(6);
    for _ in 0..nplace {
        let raw = POOL[r.usize(POOL.len())];
        // bias: place where the reference says it is authorised (so that loadable repositories are common)
        let idx = r.usize(nroles);
        let mut k = 0;
        place(&mut tree, &mut k, idx, raw);
    }
    // make most cases loadable: drop unauthorised listings with probability 2/3
    let keep_unauth = r.chance(1, 3);
    if !keep_unauth {
        // remove listings whose name no authorised chain reaches (under either reading)
        fn prune(n: &mut Node, root: &Node) {
            let name = n.name.clone();
            n.listed.retain(|raw| {
                // keep if this very entry is reachable: the reference finds SOME entry for raw
                let _ = &name;
                ref_find(root, raw, true).is_some() && ref_find(root, raw, false).is_some()
            });
            for c in n.children.iter_mut() {
                prune(c, root);
            }
        }
        let snapshot = tree.clone();
        prune(&mut tree, &snapshot);
    }
    let mut nodes = Vec::new();
    all_nodes(&tree, &mut nodes);
    let mut names: Vec<String> = Vec::new();
    for n in &nodes {
        for l in &n.listed {
            if !names.contains(l) {
                names.push(l.clone());
            }
        }
    }
    // expectations under both glob readings
    let exp_a: Vec<Option<(String, usize)>> = names.iter().map(|n| ref_find(&tree, n, true)).collect();
    let exp_b: Vec<Option<(String, usize)>> = names.iter().map(|n| ref_find(&tree, n, false)).collect();
    let ambiguous = exp_a != exp_b;
    // build the repository
    let keys = RootKeys::simple();
    let mut files = BTreeMap::new();
    let root1 = render(&sign_with(&root_signed(1, consistent, FAR, &keys), &keys.root.keys), Style::Compact);
    files.insert(meta_path(consistent, 1, "root"), root1.clone());
    let mut meta = Vec::new();
    build_files(&tree, consistent, &mut files, &mut meta, &BTreeMap::new());
    files.insert(
        meta_path(consistent, 1, "snapshot"),
        render(&sign_with(&snapshot_signed(1, FAR, meta), &keys.snapshot.keys), Style::Compact),
    );
    files.insert(
        meta_path(consistent, 1, "timestamp"),
        render(&sign_with(&timestamp_signed(1, FAR, metafile(1, None, None)), &keys.timestamp.keys), Style::Compact),
    );
    // serve, for every name, the content of the entry the reference expects (reading A)
    for (k, raw) in names.iter().enumerate() {
        if let Some((role, _)) = &exp_a[k] {
            let c = content(role, raw);
            files.insert(target_path(consistent, &resolve(raw), &c), c);
        }
    }
    let t = MemTransport::new(files);
    let dir = w.case_dir();
    let wd = client::watchdog(w.cfg.tier);
    let res = w.rt.block_on(client::load(&root1, &t, &dir, &LoadOpts::default(), wd));
    out.evals = 1;
    let some_unreachable = exp_a.iter().any(|e| e.is_none());
    let mut lookups = Vec::new();
    match &res {
        Err(client::LoadErr::Watchdog) => out.inconc("watchdog"),
        Err(e) => {
            if !some_unreachable && !ambiguous {
                // not a clause of C07 (it speaks about refusing unauthorised listings); recorded only
                out.obs("fully-authorised-tree-refused");
                lookups.push(obj! {"load_error" => e.text()});
            }
            out.h("load=refused");
        }
        Ok(repo) => {
            out.h("load=ok");
            if ambiguous {
                out.inconc("ambiguous glob (verdict depends on whether wildcards cross '/')");
            } else if some_unreachable {
                let which: Vec<&String> = names.iter().zip(exp_a.iter()).filter(|(_, e)| e.is_none()).map(|(n, _)| n).collect();
                out.viol(
                    "unauthorised-listing-loaded",
                    format!("names {which:?} are listed but no authorised chain reaches them, yet load succeeded"),
                );
            } else {
                for (k, raw) in names.iter().enumerate() {
                    let (erole, edepth) = exp_a[k].clone().unwrap();
                    let want = sha256_hex(&content(&erole, raw));
                    let tn = TargetName::new(raw.clone()).unwrap();
                    out.evals += 1;
                    let got = repo.targets().signed.find_target(&tn).ok().map(|t| hex::encode(&t.hashes.sha256));
                    // which role/depth does the enforced digest belong to?
                    let got_owner = got.as_ref().and_then(|g| {
                        nodes.iter().find(|n| n.listed.iter().any(|l| l == raw) && sha256_hex(&content(&n.name, raw)) == *g).map(|n| (n.name.clone(), n.depth))
                    });
                    match (&got, &got_owner) {
                        (None, _) => out.viol("authorised-name-not-found", format!("{raw:?}: expected entry of role {erole}, find_target found nothing")),
                        (Some(g), owner) if *g != want => out.viol(
                            format!(
                                "wrong-entry-served:expected-depth={edepth}:got-depth={}",
                                owner.as_ref().map_or("?".to_string(), |o| o.1.to_string())
                            ),
                            format!("{raw:?}: expected the entry of role {erole}, client enforces the digest of {:?}", owner),
                        ),
                        _ => {}
                    }
                    // and through read_target (what the caller actually gets); names that resolve to the
                    // same path share a URL, so the expected entry's bytes are put in place per read
                    let ec = content(&erole, raw);
                    t.set_file(&target_path(consistent, &resolve(raw), &ec), ec);
                    let rd = w.rt.block_on(async {
                        tokio::time::timeout(wd, async {
                            match repo.read_target(&tn).await {
                                Ok(Some(mut s)) => {
                                    let mut v = Vec::new();
                                    while let Some(c) = s.next().await {
                                        match c {
                                            Ok(b) => v.extend_from_slice(&b),
                                            Err(e) => return Err(client::full_error(&e)),
                                        }
                                    }
                                    Ok(Some(v))
                                }
                                Ok(None) => Ok(None),
                                Err(e) => Err(client::full_error(&e)),
                            }
                        })
                        .await
                    });
                    match rd {
                        Err(_) => out.inconc("watchdog"),
                        Ok(Ok(Some(v))) if v == content(&erole, raw) => {}
                        Ok(other) => {
                            if got.as_deref() == Some(want.as_str()) {
                                out.viol("expected-entry-unreadable", format!("{raw:?}: {:?}", other.map(|o| o.map(|b| b.len()))));
                            }
                        }
                    }
                    lookups.push(obj! {"name" => raw.as_str(), "resolved" => resolve(raw), "expected_role" => erole.as_str(), "expected_depth" => edepth,
                        "enforced_digest_belongs_to" => format!("{:?}", got_owner)});
                    out.h(format!("served-from-depth={edepth}"));
                }
            }
        }
    }
    let multi = names.iter().any(|raw| nodes.iter().filter(|n| n.listed.iter().any(|l| l == raw)).count() >= 2);
    if multi {
        out.h("same-name-listed-by-several-roles");
    }
    if some_unreachable {
        out.h("contains-unauthorised-listing");
    }
    if nodes.iter().any(|n| n.hash_kind) {
        out.h("uses-hash-prefixes");
    }
    if names.iter().any(|n| n.contains("..")) {
        out.h("name-needing-resolution");
    }
    out.h(format!("depth={}", nodes.iter().map(|n| n.depth).max().unwrap_or(0)));
    out.fingerprint = Some(format!("{}|{}", shape(&tree), String::from_utf8_lossy(&render(&describe_tree(&tree), Style::Compact))));
    out.nontrivial = multi || some_unreachable;
    out.desc = Some(obj! {
        "tree" => describe_tree(&tree), "consistent_snapshot" => consistent,
        "ambiguous_glob" => ambiguous, "some_name_unreachable" => some_unreachable,
        "load" => match &res { Ok(_) => "ok".to_string(), Err(e) => e.text() },
        "lookups" => J::A(lookups),
    });
    w.cleanup(&dir);
    out
}

pub fn run(cfg: &Cfg) -> i32 {
    let start = Instant::now();
    let _ = crate::keys::pool();
    let n = cfg.tier.pick(12_000u64, 450_000);
    let budget = cfg.tier.pick(Duration::from_secs(300), Duration::from_secs(1500));
    let ev = par_run(cfg, n, budget, |w, i| Some(run_case(w, i)));
    let required = vec![
        "load=ok".into(),
        "load=refused".into(),
        "same-name-listed-by-several-roles".into(),
        "contains-unauthorised-listing".into(),
        "uses-hash-prefixes".into(),
        "name-needing-resolution".into(),
        "served-from-depth=0".into(),
        "served-from-depth=1".into(),
        "served-from-depth=2".into(),
        "served-from-depth=3".into(),
        "depth=3".into(),
    ];
    finish(
        cfg,
        ev,
        Finish {
            level: "exploration",
            rule: "seeded random delegation trees (depth <=3, fan-out <=3) whose delegations carry path sets of literals, '*'/'?' patterns or 1-2 digit hash prefixes; up to 6 placements of names from a pool incl. names needing resolution ('a/../b', 'd/../d/x') and sub-directories, the same name listed by several roles with a different digest per (role, name); two thirds of the cases are pruned to loadable repositories. Oracle: independent pre-order lookup with pruning on the resolved name, evaluated under both glob readings (wildcards cross '/' or not) — cases whose verdict depends on the reading are inconclusive. One evaluation = one load plus one per looked-up name. Non-trivial = a name listed by >= 2 roles or an unauthorised listing.",
            assumptions: vec![
                "terminating delegations are not part of the statement; all delegations are non-terminating".into(),
                "refusing a fully authorised tree would be over-rejection outside C07's clauses; recorded as an observation".into(),
            ],
            required_hist: required,
            min_evaluations: 5000,
        },
        start.elapsed(),
    )
}
