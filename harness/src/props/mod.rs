pub mod c01;
pub mod c02;
pub mod c03;
pub mod c14;

use crate::run::Cfg;

pub fn dispatch(cfg: &Cfg) -> i32 {
    match cfg.prop.as_str() {
        "C01" => c01::run(cfg),
        "C02" => c02::run(cfg),
        "C03" => c03::run(cfg),
        "C14" => c14::run(cfg),
        other => {
            eprintln!("unknown property {other}");
            2
        }
    }
}
