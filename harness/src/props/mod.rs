pub mod c01;
pub mod c02;
pub mod c03;
pub mod c04;
pub mod c05;
pub mod c06;
pub mod c07;
pub mod c08;
pub mod c09;
pub mod c10;
pub mod c11;
pub mod c12;
pub mod c13;
pub mod c14;
pub mod c15;
pub mod c16;
pub mod c17;
pub mod c18;
pub mod c19;
pub mod c20;

use crate::run::Cfg;

pub fn dispatch(cfg: &Cfg) -> i32 {
    match cfg.prop.as_str() {
        "C01" => c01::run(cfg),
        "C02" => c02::run(cfg),
        "C03" => c03::run(cfg),
        "C04" => c04::run(cfg),
        "C05" => c05::run(cfg),
        "C06" => c06::run(cfg),
        "C07" => c07::run(cfg),
        "C08" => c08::run(cfg),
        "C09" => c09::run(cfg),
        "C10" => c10::run(cfg),
        "C11" => c11::run(cfg),
        "C12" => c12::run(cfg),
        "C13" => c13::run(cfg),
        "C14" => c14::run(cfg),
        "C15" => c15::run(cfg),
        "C16" => c16::run(cfg),
        "C17" => c17::run(cfg),
        "C18" => c18::run(cfg),
        "C19" => c19::run(cfg),
        "C20" => c20::run(cfg),
        other => {
            eprintln!("unknown property {other}");
            2
        }
    }
}
