pub mod c01;

use crate::run::Cfg;

pub fn dispatch(cfg: &Cfg) -> i32 {
    match cfg.prop.as_str() {
        "C01" => c01::run(cfg),
        other => {
            eprintln!("unknown property {other}");
            2
        }
    }
}
