//! C12 — signatures bind all content the client uses; roles cannot be swapped.

use crate::client::{self, LoadOpts};
use crate::forge::*;
use crate::json::{path_class, refcanon, render, shuffle_members, PathSeg, Style, J};
use crate::keys::{cached_sign, key};
use crate::memtransport::MemTransport;
use crate::obj;
use crate::rng::Rng;
use crate::run::*;
use std::collections::BTreeMap;
use std::sync::{Arc, Mutex, OnceLock};
use std::time::{Duration, Instant};

const ROLES: [&str; 6] = ["root", "timestamp", "snapshot", "targets", "d1", "d2"];

fn extra_value() -> J {
    obj! {"a" => J::A(vec![J::U(1), J::from("b")]), "n" => J::Null}
}

#[derive(Clone)]
struct World {
    files: BTreeMap<String, Vec<u8>>,
    shipped: Vec<u8>,
    /// role -> (path, envelope)
    docs: BTreeMap<&'static str, (String, J)>,
}

/// `rich`: unknown members at every level tough is expected to carry along.
/// `shared`: one key is authorised for timestamp, snapshot, targets, d1 and d2.
fn build_world(rich: bool, shared: bool, consistent: bool) -> World {
    let k_ts = 1;
    let (k_snap, k_tg, k_d1, k_d2) = if shared { (1, 1, 1, 1) } else { (2, 3, 5, 6) };
    let keys = RootKeys {
        root: RoleKeys::one(0),
        timestamp: RoleKeys::one(k_ts),
        snapshot: RoleKeys::one(k_snap),
        targets: RoleKeys::one(k_tg),
    };
    let st = Style::Pretty;
    let x = extra_value;
    let mut files = BTreeMap::new();
    let mut docs = BTreeMap::new();
    let r1 = sign_with(&root_signed(1, consistent, FAR, &keys), &[0]);
    let shipped = render(&r1, st);
    files.insert(meta_path(consistent, 1, "root"), shipped.clone());
    // root v2 (the rotation hop under test)
    let mut r2s = root_signed(2, consistent, FAR, &keys);
    if rich {
        r2s.set("x-root-extra", x());
        r2s.at_mut("roles").at_mut("snapshot").set("x-role-extra", 5u64);
        // an additional key (authorised for nothing) that carries unknown members; its identifier
        // is the digest of the key INCLUDING those members
        let mut kx = key(12).key_json(crate::keys::Enc::Default);
        kx.set("x-key-extra", "k");
        kx.at_mut("keyval").set("x-keyval-extra", x());
        let idx = crate::keys::keyid_of(&kx);
        r2s.at_mut("keys").set(&idx, kx);
    }
    let r2 = sign_with(&r2s, &[0]);
    // d2, d1
    let c_d2 = b"delegated two".to_vec();
    let c_d1 = b"delegated one".to_vec();
    let c_a = b"top-level a".to_vec();
    let mut d2s = targets_signed(1, FAR, vec![("d/2/f.txt".to_string(), target_entry(&c_d2, None))], None);
    let mut d1s = targets_signed(
        1,
        FAR,
        vec![("d/1/f.txt".to_string(), target_entry(&c_d1, Some(&obj! {"note" => "custom data", "n" => 3u64})))],
        None,
    );
    if rich {
        d2s.set("x-d2-extra", x());
        d1s.set("x-d1-extra", "v");
        d1s.at_mut("targets").at_mut("d/1/f.txt").set("x-target-extra", x());
    }
    let d2 = sign_with(&d2s, &[k_d2]);
    let d1 = sign_with(&d1s, &[k_d1]);
    let mut tk = vec![k_d1];
    if !tk.contains(&k_d2) {
        tk.push(k_d2);
    }
    let mut delegs = delegations(
        &tk,
        vec![
            delegated_role_entry("d1", &[k_d1], 1, &Paths::Patterns(vec!["d/1/*".into()]), false),
            delegated_role_entry("d2", &[k_d2], 1, &Paths::HashPrefixes(vec![crate::json::sha256_hex(b"d/2/f.txt")[..2].to_string()]), false),
        ],
    );
    if rich {
        let mut kx = key(13).key_json(crate::keys::Enc::Default);
        kx.set("x-dkey-extra", 1u64);
        kx.at_mut("keyval").set("x-keyval-extra", x());
        let idx = crate::keys::keyid_of(&kx);
        delegs.at_mut("keys").set(&idx, kx);
    }
    let mut tgs = targets_signed(
        1,
        FAR,
        vec![
            ("a.txt".to_string(), target_entry(&c_a, Some(&obj! {"k" => "v"}))),
            ("\u{e9}.txt".to_string(), target_entry(b"accent", None)),
        ],
        Some(delegs),
    );
    if rich {
        tgs.set("x-targets-extra", x());
        tgs.at_mut("targets").at_mut("a.txt").set("x-target-extra", 1u64);
        tgs.at_mut("targets").at_mut("a.txt").at_mut("hashes").set("sha512", "00ff");
        tgs.at_mut("targets").at_mut("a.txt").at_mut("custom").set("deep", x());
    }
    let tg = sign_with(&tgs, &[k_tg]);
    let mut snaps = snapshot_signed(
        1,
        FAR,
        vec![
            ("targets.json".into(), metafile(1, None, None)),
            ("d1.json".into(), metafile(1, None, None)),
            ("d2.json".into(), metafile(1, Some(100_000), Some(&crate::json::sha256_hex(&render(&d2, st))))),
        ],
    );
    if rich {
        snaps.set("x-snapshot-extra", x());
        snaps.at_mut("meta").at_mut("d1.json").set("x-meta-extra", "m");
        snaps.at_mut("meta").at_mut("d2.json").at_mut("hashes").set("sha512", "abcd");
    }
    let snap = sign_with(&snaps, &[k_snap]);
    let mut tss = timestamp_signed(1, FAR, metafile(1, None, None));
    if rich {
        tss.set("x-timestamp-extra", x());
        tss.at_mut("meta").at_mut("snapshot.json").set("x-meta-extra", 9u64);
    }
    let ts = sign_with(&tss, &[k_ts]);
    for (role, env, ver) in [("root", r2, 2), ("timestamp", ts, 1), ("snapshot", snap, 1), ("targets", tg, 1), ("d1", d1, 1), ("d2", d2, 1)] {
        let p = meta_path(consistent, ver, role);
        files.insert(p.clone(), render(&env, st));
        docs.insert(role, (p, env));
    }
    for (n, c) in [("a.txt", &c_a), ("d/1/f.txt", &c_d1), ("d/2/f.txt", &c_d2)] {
        files.insert(target_path(consistent, n, c), c.to_vec());
    }
    World { files, shipped, docs }
}

static WORLDS: OnceLock<Mutex<BTreeMap<(bool, bool, bool), Arc<World>>>> = OnceLock::new();
fn world(rich: bool, shared: bool, consistent: bool) -> Arc<World> {
    let m = WORLDS.get_or_init(Default::default);
    let mut g = m.lock().unwrap();
    g.entry((rich, shared, consistent))
        .or_insert_with(|| Arc::new(build_world(rich, shared, consistent)))
        .clone()
}

#[derive(Clone, Debug)]
enum Mut {
    Scalar(Vec<PathSeg>, u8),
    Delete(Vec<PathSeg>),
    Insert(Vec<PathSeg>),
    /// next to the member at this path, a member whose name is the same name plus a backslash
    InsertTwin(Vec<PathSeg>),
    DupFirst(Vec<PathSeg>),
    DupLast(Vec<PathSeg>),
    ArrDelete(Vec<PathSeg>, usize),
    ArrDup(Vec<PathSeg>, usize),
    ArrSwap(Vec<PathSeg>),
    ArrInsert(Vec<PathSeg>),
    TypeTag(&'static str),
}

impl Mut {
    fn kind(&self) -> &'static str {
        match self {
            Mut::Scalar(..) => "scalar",
            Mut::Delete(_) => "member-delete",
            Mut::Insert(_) => "member-insert",
            Mut::InsertTwin(_) => "member-insert-backslash-twin",
            Mut::DupFirst(_) => "member-duplicate-first",
            Mut::DupLast(_) => "member-duplicate-last",
            Mut::ArrDelete(..) => "array-delete",
            Mut::ArrDup(..) => "array-duplicate",
            Mut::ArrSwap(_) => "array-reorder",
            Mut::ArrInsert(_) => "array-insert",
            Mut::TypeTag(_) => "type-tag",
        }
    }
    fn path(&self) -> Vec<PathSeg> {
        match self {
            Mut::Scalar(p, _) | Mut::Delete(p) | Mut::Insert(p) | Mut::InsertTwin(p) | Mut::DupFirst(p) | Mut::DupLast(p) | Mut::ArrDelete(p, _) | Mut::ArrDup(p, _) | Mut::ArrSwap(p) | Mut::ArrInsert(p) => p.clone(),
            Mut::TypeTag(_) => vec![PathSeg::K("_type".into())],
        }
    }
}

fn changed(v: &J, variant: u8) -> J {
    match v {
        J::S(s) if variant == 2 => {
            // a compatibility look-alike: the first ASCII digit becomes its full-width twin
            match s.char_indices().find(|(_, c)| c.is_ascii_digit()) {
                Some((i, c)) => {
                    let twin = char::from_u32(0xFF10 + (c as u32 - '0' as u32)).unwrap();
                    J::S(format!("{}{}{}", &s[..i], twin, &s[i + 1..]))
                }
                None => J::S(format!("{s}\u{b2}")),
            }
        }
        J::S(s) => {
            let hexlike = s.len() >= 2 && s.chars().all(|c| c.is_ascii_hexdigit());
            if hexlike {
                let mut cs: Vec<char> = s.chars().collect();
                let i = if variant == 0 { 0 } else { cs.len() - 1 };
                cs[i] = if cs[i] == '0' { '1' } else { '0' };
                J::S(cs.into_iter().collect())
            } else if variant == 0 {
                J::S(format!("{s}x"))
            } else if s.starts_with("20") && s.ends_with('Z') {
                // an `expires` value: another valid instant
                J::S(s.replacen("2100", "2101", 1))
            } else {
                J::S(format!("x{s}"))
            }
        }
        J::U(u) => J::U(if variant == 0 { u + 1 } else { u.saturating_add(1000) }),
        J::I(i) => J::I(i + 1),
        J::Bool(b) => J::Bool(!b),
        J::Null => J::U(0),
        other => other.clone(),
    }
}

fn mutations_of(signed: &J, own_type: &str) -> Vec<Mut> {
    let mut v = Vec::new();
    for p in signed.all_paths() {
        // (below a duplicated member name a path resolves to the first of the two only)
        let Some(node) = signed.path(&p) else { continue };
        match node {
            J::O(m) => {
                v.push(Mut::Insert(p.clone()));
                for (k, _) in m {
                    let mut q = p.clone();
                    q.push(PathSeg::K(k.clone()));
                    v.push(Mut::Delete(q.clone()));
                    v.push(Mut::InsertTwin(q.clone()));
                    v.push(Mut::DupFirst(q.clone()));
                    v.push(Mut::DupLast(q));
                }
            }
            J::A(a) => {
                v.push(Mut::ArrInsert(p.clone()));
                for i in 0..a.len() {
                    v.push(Mut::ArrDelete(p.clone(), i));
                    v.push(Mut::ArrDup(p.clone(), i));
                }
                if a.len() >= 2 && a[0] != a[1] {
                    v.push(Mut::ArrSwap(p.clone()));
                }
            }
            J::F(_) => {}
            _ => {
                if p == vec![PathSeg::K("_type".into())] {
                    continue;
                }
                v.push(Mut::Scalar(p.clone(), 0));
                v.push(Mut::Scalar(p.clone(), 1));
                if matches!(node, J::S(s) if s.chars().any(|c| c.is_ascii_digit())) {
                    v.push(Mut::Scalar(p.clone(), 2));
                }
            }
        }
    }
    for t in ["root", "timestamp", "snapshot", "targets", "mirrors"] {
        if t != own_type {
            v.push(Mut::TypeTag(t));
        }
    }
    v
}

fn apply(signed: &J, m: &Mut) -> J {
    let mut s = signed.clone();
    let split = |p: &Vec<PathSeg>| -> (Vec<PathSeg>, String) {
        let mut q = p.clone();
        match q.pop() {
            Some(PathSeg::K(k)) => (q, k),
            _ => panic!("member path expected"),
        }
    };
    match m {
        Mut::Scalar(p, var) => {
            let n = s.path_mut(p).unwrap();
            *n = changed(n, *var);
        }
        Mut::Delete(p) => {
            let (q, k) = split(p);
            s.path_mut(&q).unwrap().remove(&k);
        }
        Mut::Insert(p) => s.path_mut(p).unwrap().members_mut().push(("zz-injected".into(), J::U(1))),
        Mut::InsertTwin(p) => {
            let (q, k) = split(p);
            let parent = s.path_mut(&q).unwrap();
            let v = parent.get(&k).unwrap().clone();
            parent.members_mut().push((format!("{k}\\"), v));
        }
        Mut::DupFirst(p) | Mut::DupLast(p) => {
            let (q, k) = split(p);
            let parent = s.path_mut(&q).unwrap();
            let old = parent.get(&k).unwrap().clone();
            let newv = match &old {
                J::O(_) | J::A(_) => J::U(7),
                sc => changed(sc, 0),
            };
            if matches!(m, Mut::DupFirst(_)) {
                parent.members_mut().insert(0, (k, newv));
            } else {
                parent.members_mut().push((k, newv));
            }
        }
        Mut::ArrDelete(p, i) => {
            s.path_mut(p).unwrap().items_mut().remove(*i);
        }
        Mut::ArrDup(p, i) => {
            let a = s.path_mut(p).unwrap().items_mut();
            let e = a[*i].clone();
            a.push(e);
        }
        Mut::ArrSwap(p) => s.path_mut(p).unwrap().items_mut().swap(0, 1),
        Mut::ArrInsert(p) => {
            let a = s.path_mut(p).unwrap().items_mut();
            let e = match a.first() {
                Some(J::S(x)) => J::S(format!("{x}-injected")),
                Some(other) => other.clone(),
                None => J::S("injected".into()),
            };
            a.push(e);
        }
        Mut::TypeTag(t) => s.set("_type", *t),
    }
    s
}

#[derive(Clone, Debug)]
enum Case {
    Mutation { role: &'static str, m: Mut, consistent: bool },
    Multi { role: &'static str, seed: u64, consistent: bool },
    Benign { role: &'static str, kind: &'static str, consistent: bool },
    ExtraLevel { level: &'static str, consistent: bool },
    Spelling { role: &'static str, consistent: bool },
    Swap { serve_as: &'static str, from: &'static str },
    Baseline { rich: bool, shared: bool, consistent: bool },
}

/// Another spelling of the same encoded byte strings: upper-case hex for key identifiers (member names
/// of every `keys` table, entries of every `keyids` list) and for digests inside `hashes`.
fn respell_hex(j: &mut J, in_keys_table: bool) {
    match j {
        J::O(m) => {
            for (k, v) in m.iter_mut() {
                let name = k.clone();
                if in_keys_table {
                    *k = k.to_uppercase();
                    continue;
                }
                match name.as_str() {
                    "keyids" => {
                        for e in v.items_mut() {
                            if let J::S(s) = e {
                                *s = s.to_uppercase();
                            }
                        }
                    }
                    "hashes" => {
                        for (_, hv) in v.members_mut() {
                            if let J::S(s) = hv {
                                *s = s.to_uppercase();
                            }
                        }
                    }
                    "keys" => respell_hex(v, true),
                    "custom" => {}
                    _ => respell_hex(v, false),
                }
            }
        }
        J::A(a) => {
            for e in a {
                respell_hex(e, false);
            }
        }
        _ => {}
    }
}

fn own_type(role: &str) -> &'static str {
    match role {
        "root" => "root",
        "timestamp" => "timestamp",
        "snapshot" => "snapshot",
        _ => "targets",
    }
}

fn exposed(repo: &tough::Repository, role: &str) -> Option<J> {
    let v = match role {
        "root" => serde_json::to_value(&repo.root().signed).ok()?,
        "timestamp" => serde_json::to_value(&repo.timestamp().signed).ok()?,
        "snapshot" => serde_json::to_value(&repo.snapshot().signed).ok()?,
        "targets" => serde_json::to_value(&repo.targets().signed).ok()?,
        d => serde_json::to_value(&repo.delegated_role(d)?.targets.as_ref()?.signed).ok()?,
    };
    Some(J::from_serde(&v))
}

/// A few values read through typed accessors rather than through Serialize.
fn typed_view_ok(repo: &tough::Repository, role: &str, signed: &J) -> Result<(), String> {
    let ver = signed.at("version").as_u64().unwrap();
    let exp = signed.at("expires").as_str().unwrap().to_string();
    let check = |v: u64, e: chrono::DateTime<chrono::Utc>| -> Result<(), String> {
        if v != ver {
            return Err(format!("version accessor {v} != signed {ver}"));
        }
        if crate::fmt_time(e) != exp {
            return Err(format!("expires accessor {} != signed {exp}", crate::fmt_time(e)));
        }
        Ok(())
    };
    match role {
        "root" => check(repo.root().signed.version.get(), repo.root().signed.expires),
        "timestamp" => check(repo.timestamp().signed.version.get(), repo.timestamp().signed.expires),
        "snapshot" => {
            check(repo.snapshot().signed.version.get(), repo.snapshot().signed.expires)?;
            for (f, m) in signed.at("meta").members() {
                let got = repo.snapshot().signed.meta.get(f).map(|x| x.version.get());
                if got != m.at("version").as_u64() {
                    return Err(format!("meta[{f}].version accessor {got:?}"));
                }
            }
            Ok(())
        }
        _ => {
            let t = if role == "targets" {
                &repo.targets().signed
            } else {
                &repo.delegated_role(role).and_then(|r| r.targets.as_ref()).ok_or("role not loaded")?.signed
            };
            check(t.version.get(), t.expires)?;
            for (name, e) in signed.at("targets").members() {
                let tn = tough::TargetName::new(name.clone()).map_err(|e| e.to_string())?;
                let got = t.targets.get(&tn).ok_or(format!("target {name} missing in accessor view"))?;
                if Some(got.length) != e.at("length").as_u64() {
                    return Err(format!("target {name} length accessor {}", got.length));
                }
                if hex::encode(&got.hashes.sha256) != e.at("hashes").at("sha256").as_str().unwrap() {
                    return Err(format!("target {name} sha256 accessor differs"));
                }
            }
            if t.targets.len() != signed.at("targets").members().len() {
                return Err("target count differs".into());
            }
            Ok(())
        }
    }
}

fn load_world(w: &mut Worker, files: BTreeMap<String, Vec<u8>>, shipped: &[u8]) -> (Result<tough::Repository, client::LoadErr>, std::path::PathBuf) {
    let t = MemTransport::new(files);
    let dir = w.case_dir();
    let r = w.rt.block_on(client::load(shipped, &t, &dir, &LoadOpts::default(), client::watchdog(w.cfg.tier)));
    (r, dir)
}

/// Signed portion of the document the client stored in its datastore as the trusted one of `role`.
fn stored_signed(ds: &std::path::Path, role: &str) -> Option<J> {
    let f = match role {
        "root" => return None,
        "timestamp" | "snapshot" | "targets" => format!("{role}.json"),
        d => format!("{d}.json"),
    };
    let b = std::fs::read(ds.join(f)).ok()?;
    J::parse(&b).ok()?.get("signed").cloned()
}

fn accepted_as(repo: &tough::Repository, role: &str) -> bool {
    match role {
        "root" => repo.root().signed.version.get() == 2,
        "d1" | "d2" => repo.delegated_role(role).map_or(false, |r| r.targets.is_some()),
        _ => true,
    }
}

fn run_case(w: &mut Worker, c: &Case) -> CaseOut {
    let mut out = CaseOut::default();
    out.evals = 1;
    match c {
        Case::Baseline { rich, shared, consistent } => {
            let wd = world(*rich, *shared, *consistent);
            let (r, dir) = load_world(w, wd.files.clone(), &wd.shipped);
            match r {
                Ok(repo) => {
                    for role in ROLES {
                        let s = wd.docs[role].1.at("signed");
                        match exposed(&repo, role) {
                            Some(e) if refcanon(&e).ok() == refcanon(s).ok() => {}
                            Some(e) => out.viol(
                                format!("exposed-differs-from-signed:role={role}:baseline"),
                                format!("exposed {:?}", String::from_utf8_lossy(&render(&e, Style::Compact)).chars().take(300).collect::<String>()),
                            ),
                            None => out.viol(format!("role-not-exposed:{role}"), "valid role not loaded".to_string()),
                        }
                        if let Err(e) = typed_view_ok(&repo, role, s) {
                            out.viol(format!("accessor-differs-from-signed:role={role}"), e);
                        }
                    }
                }
                Err(e) => {
                    if *rich {
                        out.viol("reject-benign:extra-member:level=all-supported-levels", format!("rich baseline refused: {}", e.text()));
                    } else {
                        out.broken = Some(format!("plain baseline does not load: {}", e.text()));
                    }
                }
            }
            out.h(format!("baseline:rich={rich}:shared={shared}"));
            out.fingerprint = Some(format!("baseline|{rich}|{shared}|{consistent}"));
            out.nontrivial = *rich;
            out.desc = Some(obj! {"kind" => "baseline", "unknown_members_at_every_supported_level" => *rich, "one_key_for_all_online_and_delegated_roles" => *shared});
            w.cleanup(&dir);
        }
        Case::Mutation { role, m, consistent } => {
            let wd = world(true, false, *consistent);
            let (path, env) = &wd.docs[role];
            let s = env.at("signed");
            let ms = apply(s, m);
            let mut e2 = env.clone();
            e2.set("signed", ms.clone());
            let mut files = wd.files.clone();
            files.insert(path.clone(), render(&e2, Style::Pretty));
            let (r, dir) = load_world(w, files, &wd.shipped);
            let pc = path_class(&m.path());
            let mut observed = "rejected".to_string();
            // whatever the outcome of the cycle: the datastore must not hold content that was not signed
            if let Some(stored) = stored_signed(&dir, role) {
                if refcanon(&stored).ok() != refcanon(s).ok() && refcanon(&stored).ok() == refcanon(&ms).ok() {
                    out.viol(
                        format!("used-unsigned:role={role}:mutation={}:stored-as-trusted", m.kind()),
                        format!("the mutated {role} document was stored in the datastore as trusted; mutation {m:?}"),
                    );
                }
            }
            match &r {
                Err(client::LoadErr::Watchdog) => out.inconc("watchdog"),
                Err(_) => {}
                Ok(repo) if !accepted_as(repo, role) => observed = "not accepted (previous root kept / role not loaded)".into(),
                Ok(repo) => {
                    // accepted: what the client goes on with must be what was signed
                    let e = exposed(repo, role);
                    let same = e.as_ref().and_then(|e| refcanon(e).ok()) == refcanon(s).ok();
                    if !same {
                        out.viol(
                            format!("used-unsigned:role={role}:mutation={}:path={pc}", m.kind()),
                            format!("mutated document accepted and exposed content differs from the signed content; mutation {m:?}"),
                        );
                        observed = "ACCEPTED with content that was not signed".into();
                    } else if let Err(err) = typed_view_ok(repo, role, s) {
                        out.viol(format!("accessor-differs-from-signed:role={role}:mutation={}", m.kind()), err);
                    } else {
                        observed = "accepted, exposed content identical to the signed content (mutation had no effect)".into();
                        out.h("accepted-without-effect");
                    }
                }
            }
            out.h(format!("mutation={}", m.kind()));
            out.h(format!("role={role}"));
            out.fingerprint = Some(format!("{role}|{}|{pc}|{consistent}|{:?}", m.kind(), m));
            out.nontrivial = true;
            out.desc = Some(obj! {"kind" => "single-point mutation inside the signed portion", "role" => *role, "mutation" => m.kind(), "path" => pc.as_str(), "detail" => format!("{m:?}"), "observed" => observed});
            w.cleanup(&dir);
        }
        Case::Multi { role, seed, consistent } => {
            // two or three mutations composed: each next one is drawn from the mutation space of the
            // already mutated document, so that compensating and overlapping edits occur
            let wd = world(true, false, *consistent);
            let (path, env) = &wd.docs[role];
            let s = env.at("signed");
            let mut rng = Rng::new(*seed);
            let k = 2 + (rng.below(3) == 0) as usize;
            let mut ms = s.clone();
            let mut kinds: Vec<&'static str> = Vec::new();
            let mut pcs: Vec<String> = Vec::new();
            let mut detail = Vec::new();
            for _ in 0..k {
                let all = mutations_of(&ms, own_type(role));
                let m = all[rng.below(all.len() as u64) as usize].clone();
                ms = apply(&ms, &m);
                kinds.push(m.kind());
                pcs.push(path_class(&m.path()));
                detail.push(format!("{m:?}"));
            }
            let mut e2 = env.clone();
            e2.set("signed", ms.clone());
            let mut files = wd.files.clone();
            files.insert(path.clone(), render(&e2, Style::Pretty));
            let (r, dir) = load_world(w, files, &wd.shipped);
            let mut observed = "rejected".to_string();
            let unchanged = refcanon(&ms).ok() == refcanon(s).ok();
            if let Some(stored) = stored_signed(&dir, role) {
                if !unchanged && refcanon(&stored).ok() == refcanon(&ms).ok() {
                    out.viol(
                        format!("used-unsigned:role={role}:mutation=composed:stored-as-trusted"),
                        format!("the mutated {role} document was stored in the datastore as trusted; mutations {detail:?}"),
                    );
                }
            }
            match &r {
                Err(client::LoadErr::Watchdog) => out.inconc("watchdog"),
                Err(_) => {}
                Ok(repo) if !accepted_as(repo, role) => observed = "not accepted (previous root kept / role not loaded)".into(),
                Ok(repo) => {
                    let e = exposed(repo, role);
                    let same = e.as_ref().and_then(|e| refcanon(e).ok()) == refcanon(s).ok();
                    if !same {
                        out.viol(
                            format!("used-unsigned:role={role}:mutation=composed:{}", kinds.join("+")),
                            format!("mutated document accepted and exposed content differs from the signed content; mutations {detail:?}"),
                        );
                        observed = "ACCEPTED with content that was not signed".into();
                    } else if let Err(err) = typed_view_ok(repo, role, s) {
                        out.viol(format!("accessor-differs-from-signed:role={role}:mutation=composed"), err);
                    } else {
                        observed = "accepted, exposed content identical to the signed content".into();
                        out.h("accepted-without-effect");
                        if unchanged {
                            out.h("composed-mutations-cancel");
                        }
                    }
                }
            }
            out.h("mutation=composed");
            out.h(format!("role={role}"));
            out.fingerprint = Some(format!("{role}|composed|{}|{}|{consistent}", kinds.join("+"), pcs.join("+")));
            out.nontrivial = true;
            out.desc = Some(obj! {"kind" => "composed mutations inside the signed portion", "role" => *role, "mutations" => J::A(detail.iter().map(|d| J::from(d.as_str())).collect()), "observed" => observed});
            w.cleanup(&dir);
        }
        Case::Benign { role, kind, consistent } => {
            let wd = world(true, false, *consistent);
            let (path, env) = &wd.docs[role];
            let bytes = match *kind {
                "compact" => render(env, Style::Compact),
                "unicode-escapes" => render(env, Style::UnicodeEscapes),
                "shuffled" => {
                    let mut e = env.clone();
                    shuffle_members(&mut e, &mut Rng::new(crate::rng::fnv(role)));
                    render(&e, Style::Pretty)
                }
                "extra-signature-unknown-key" => {
                    let mut e = env.clone();
                    let msg = signed_bytes(e.at("signed"));
                    e.at_mut("signatures").items_mut().insert(0, sig_entry(&key(9).id(), &cached_sign(9, &msg)));
                    e.at_mut("signatures").items_mut().push(sig_entry(&key(10).id(), &[1, 2, 3, 4]));
                    render(&e, Style::Pretty)
                }
                "extra-envelope-member" => {
                    let mut e = env.clone();
                    e.set("x-unsigned-envelope-member", 1u64);
                    render(&e, Style::Pretty)
                }
                _ => {
                    // NFC respelling of a target name (same canonical form)
                    let txt = String::from_utf8(render(env, Style::Pretty)).unwrap();
                    txt.replace('\u{e9}', "e\u{301}").into_bytes()
                }
            };
            let mut files = wd.files.clone();
            files.insert(path.clone(), bytes);
            let (r, dir) = load_world(w, files, &wd.shipped);
            let is_nfc = *kind == "nfc-respelling";
            match &r {
                Err(client::LoadErr::Watchdog) => out.inconc("watchdog"),
                Err(e) => {
                    if is_nfc {
                        out.obs("nfc_respelling_refused");
                    } else {
                        out.viol(format!("reject-benign:{kind}:role={role}"), format!("benign rewrite refused: {}", e.text()));
                    }
                }
                Ok(repo) => {
                    if !accepted_as(repo, role) && !is_nfc {
                        out.viol(format!("reject-benign:{kind}:role={role}"), "benign rewrite not accepted".to_string());
                    } else if is_nfc {
                        out.obs("nfc_respelling_accepted");
                    } else {
                        let s = env.at("signed");
                        if exposed(repo, role).and_then(|e| refcanon(&e).ok()) != refcanon(s).ok() {
                            out.viol(format!("exposed-differs-from-signed:role={role}:benign={kind}"), "".to_string());
                        }
                    }
                }
            }
            out.h(format!("benign={kind}"));
            out.fingerprint = Some(format!("benign|{role}|{kind}|{consistent}"));
            out.nontrivial = true;
            out.desc = Some(obj! {"kind" => "benign rewrite", "role" => *role, "rewrite" => *kind, "observed" => match &r { Ok(_) => "ok".to_string(), Err(e) => e.text() }});
            w.cleanup(&dir);
        }
        Case::ExtraLevel { level, consistent } => {
            // one unknown member at one level of a plain (not rich) world, validly signed
            let wd = world(false, false, *consistent);
            let (role, signer): (&str, usize) = match *level {
                "targets.delegations" | "targets.delegations.roles[]" | "targets.targets.*.custom-empty" | "targets.delegations.roles[].paths+hash" => ("targets", 3),
                "d1.targets.*.custom-empty" => ("d1", 5),
                _ => ("targets", 3),
            };
            let (path, env) = &wd.docs[role];
            let mut s = env.at("signed").clone();
            match *level {
                "targets.delegations" => s.at_mut("delegations").set("x-delegations-extra", extra_value()),
                "targets.delegations.roles[]" => s.at_mut("delegations").at_mut("roles").items_mut()[0].set("x-role-entry-extra", 1u64),
                "targets.targets.*.custom-empty" => s.at_mut("targets").at_mut("\u{e9}.txt").set("custom", J::O(vec![])),
                "d1.targets.*.custom-empty" => {
                    let first = s.at("targets").members()[0].0.clone();
                    s.at_mut("targets").at_mut(&first).set("custom", J::O(vec![]));
                }
                _ => {}
            }
            let e2 = sign_with(&s, &[signer]);
            let mut files = wd.files.clone();
            files.insert(path.clone(), render(&e2, Style::Pretty));
            let (r, dir) = load_world(w, files, &wd.shipped);
            let what = if level.ends_with("custom-empty") { "empty-custom" } else { "extra-member" };
            match &r {
                Err(client::LoadErr::Watchdog) => out.inconc("watchdog"),
                Err(e) => out.viol(
                    format!("reject-benign:{what}:level={level}"),
                    format!("validly signed document of another conforming implementation refused: {}", e.text()),
                ),
                Ok(repo) => {
                    if exposed(repo, role).and_then(|e| refcanon(&e).ok()) != refcanon(&s).ok() {
                        out.viol(format!("exposed-differs-from-signed:role={role}:level={level}"), "accepted but exposed content differs".to_string());
                    }
                }
            }
            out.h(format!("extra-level={level}"));
            out.fingerprint = Some(format!("extra|{level}|{consistent}"));
            out.nontrivial = true;
            out.desc = Some(obj! {"kind" => "unknown/optional member written by a conforming signer", "level" => *level, "observed" => match &r { Ok(_) => "ok".to_string(), Err(e) => e.text() }});
            w.cleanup(&dir);
        }
        Case::Spelling { role, consistent } => {
            let wd = world(true, false, *consistent);
            let signer = match *role {
                "root" => 0,
                "timestamp" => 1,
                "snapshot" => 2,
                "targets" => 3,
                "d1" => 5,
                _ => 6,
            };
            let (path, env) = &wd.docs[role];
            let mut s = env.at("signed").clone();
            respell_hex(&mut s, false);
            let respelled = render(&s, Style::Compact) != render(env.at("signed"), Style::Compact);
            let e2 = sign_with(&s, &[signer]);
            let mut files = wd.files.clone();
            let bytes = render(&e2, Style::Pretty);
            if *role == "d2" {
                // the snapshot pins d2.json by digest: publish a snapshot for the respelled document
                let (sp, senv) = &wd.docs["snapshot"];
                let mut ss = senv.at("signed").clone();
                ss.at_mut("meta").at_mut("d2.json").at_mut("hashes").set("sha256", crate::json::sha256_hex(&bytes));
                files.insert(sp.clone(), render(&sign_with(&ss, &[2]), Style::Pretty));
            }
            files.insert(path.clone(), bytes);
            let (r, dir) = load_world(w, files, &wd.shipped);
            match &r {
                Err(client::LoadErr::Watchdog) => out.inconc("watchdog"),
                Err(e) => out.viol(
                    format!("reject-benign:uppercase-hex:role={role}"),
                    format!("validly signed document spelling key identifiers / digests in upper-case hex refused: {}", e.text()),
                ),
                Ok(repo) => {
                    if !accepted_as(repo, role) {
                        out.viol(format!("reject-benign:uppercase-hex:role={role}"), "validly signed respelled document not accepted".to_string());
                    } else if exposed(repo, role).and_then(|e| refcanon(&e).ok()) != refcanon(&s).ok() {
                        out.viol(format!("exposed-differs-from-signed:role={role}:benign=uppercase-hex"), "accepted but exposed content differs from the signed spelling".to_string());
                    }
                }
            }
            if respelled {
                out.h("benign=uppercase-hex");
            }
            out.fingerprint = Some(format!("spelling|{role}|{consistent}"));
            out.nontrivial = respelled;
            out.desc = Some(obj! {"kind" => "validly signed document with upper-case hex spelling of key ids and digests", "role" => *role, "observed" => match &r { Ok(_) => "ok".to_string(), Err(e) => e.text() }});
            w.cleanup(&dir);
        }
        Case::Swap { serve_as, from } => {
            let wd = world(false, true, false);
            let (path, _) = &wd.docs[serve_as];
            let (_, from_env) = &wd.docs[from];
            let mut files = wd.files.clone();
            files.insert(path.clone(), render(from_env, Style::Pretty));
            let (r, dir) = load_world(w, files, &wd.shipped);
            // even when the cycle fails later on, the swapped document must not have been taken as the
            // trusted document of the other role (the datastore holds what the client trusted)
            if let Some(stored) = stored_signed(&dir, serve_as) {
                // (same-type-tag swaps are the known finding reported below; not duplicated here)
                if own_type(serve_as) != own_type(from) && refcanon(&stored).ok() == refcanon(from_env.at("signed")).ok() {
                    out.viol(
                        format!("swap-accepted:{serve_as}<-{from}:stored-as-trusted"),
                        format!("the document signed for role {from} was stored in the datastore as the trusted {serve_as} document"),
                    );
                }
            }
            match &r {
                Err(client::LoadErr::Watchdog) => out.inconc("watchdog"),
                Err(_) => {}
                Ok(repo) => {
                    if accepted_as(repo, serve_as) {
                        let same_type = own_type(serve_as) == own_type(from);
                        out.viol(
                            format!("swap-accepted:{serve_as}<-{from}:{}", if same_type { "same-type-tag:shared-key" } else { "different-type-tag" }),
                            format!("the document signed for role {from} was accepted in place of {serve_as} (one key authorised for both)"),
                        );
                    }
                }
            }
            out.h(format!("swap:{serve_as}<-{from}"));
            out.fingerprint = Some(format!("swap|{serve_as}|{from}"));
            out.nontrivial = true;
            out.desc = Some(obj! {"kind" => "document of one role served in place of another (shared key)", "served_as" => *serve_as, "document_of" => *from, "observed" => match &r { Ok(_) => "ok".to_string(), Err(e) => e.text() }});
            w.cleanup(&dir);
        }
    }
    out
}

pub fn run(cfg: &Cfg) -> i32 {
    let start = Instant::now();
    let _ = crate::keys::pool();
    let mut cases = Vec::new();
    for rich in [false, true] {
        for shared in [false, true] {
            for consistent in [false, true] {
                cases.push(Case::Baseline { rich, shared, consistent });
            }
        }
    }
    let consistents: &[bool] = if cfg.tier == Tier::Quick { &[false] } else { &[false, true] };
    for &consistent in consistents {
        let wd = world(true, false, consistent);
        for role in ROLES {
            let s = wd.docs[role].1.at("signed");
            for m in mutations_of(s, own_type(role)) {
                cases.push(Case::Mutation { role, m, consistent });
            }
        }
    }
    for consistent in [false, true] {
        for role in ROLES {
            for kind in ["compact", "unicode-escapes", "shuffled", "extra-signature-unknown-key", "extra-envelope-member"] {
                cases.push(Case::Benign { role, kind, consistent });
            }
        }
        cases.push(Case::Benign { role: "targets", kind: "nfc-respelling", consistent });
        for level in ["targets.delegations", "targets.delegations.roles[]", "targets.targets.*.custom-empty", "d1.targets.*.custom-empty"] {
            cases.push(Case::ExtraLevel { level, consistent });
        }
        for role in ROLES {
            cases.push(Case::Spelling { role, consistent });
        }
    }
    for (a, b) in [
        ("timestamp", "snapshot"),
        ("snapshot", "timestamp"),
        ("targets", "snapshot"),
        ("snapshot", "targets"),
        ("timestamp", "targets"),
        ("targets", "d1"),
        ("d1", "targets"),
        ("d1", "d2"),
        ("d2", "d1"),
    ] {
        cases.push(Case::Swap { serve_as: a, from: b });
    }
    let ncomposed = cfg.tier.pick(6_000u64, 400_000);
    for g in 0..ncomposed {
        let seed = crate::rng::fnv(&format!("c12-composed-{}-{g}", cfg.seed));
        cases.push(Case::Multi { role: ROLES[(g % 6) as usize], seed, consistent: (g / 6) % 2 == 1 });
    }
    let budget = cfg.tier.pick(Duration::from_secs(300), Duration::from_secs(1500));
    let mut ev = par_run(cfg, cases.len() as u64, budget, |w, i| cases.get(i as usize).map(|c| run_case(w, c)));
    ev.exhaustive = true;
    crate::memcheck::run(cfg, &mut ev, crate::memcheck::Leg { processes: 16, modulus: 16, limit: Duration::from_secs(900) });
    ev.extra.push((
        "single_point_mutation_space_enumerated_completely".into(),
        J::Bool(!ev.inconclusive.contains_key("wall-budget-reached")),
    ));
    let mut required: Vec<String> = Vec::new();
    for m in ["scalar", "member-delete", "member-insert", "member-insert-backslash-twin", "member-duplicate-first", "member-duplicate-last", "array-delete", "array-duplicate", "array-reorder", "array-insert", "type-tag", "composed"] {
        required.push(format!("mutation={m}"));
    }
    for r in ROLES {
        required.push(format!("role={r}"));
    }
    for b in ["compact", "unicode-escapes", "shuffled", "extra-signature-unknown-key", "extra-envelope-member", "nfc-respelling", "uppercase-hex"] {
        required.push(format!("benign={b}"));
    }
    required.push("baseline:rich=true:shared=false".into());
    required.push("swap:targets<-d1".into());
    required.push("swap:timestamp<-snapshot".into());
    finish(
        cfg,
        ev,
        Finish {
            level: "exploration",
            rule: "for each role type (root at a rotation hop, timestamp, snapshot, targets, two delegated roles) a validly signed document carrying unknown members at every level tough carries along; EVERY single-point mutation of its signed portion is enumerated from the JSON tree (each scalar changed in two ways, strings with a digit also to a compatibility look-alike, each member deleted / duplicated first / duplicated last, a member inserted into every object, next to every member a twin whose name differs by a trailing backslash, each array element deleted / duplicated, arrays re-ordered / extended, the type tag swapped to each other type), served in place, and the real client's outcome recorded: accepted => the Serialize view AND typed accessors of what the client exposes must equal the signed content (canonical comparison). On top of the complete single-point space, seeded compositions of two or three mutations (each drawn from the mutation space of the already mutated document) are judged the same way. Benign rewrites (compact, \\u escapes, shuffled members, extra signature entries, extra envelope member) must stay acceptable; optional/unknown members a conforming signer may write (inside delegations, role entries, empty custom) must stay acceptable; documents swapped between roles sharing one key must be refused. Fingerprint = (role, mutation kind, JSON path class, detail).",
            assumptions: vec![
                "'identical to what the signers signed' is judged on the canonical form (NFC respelling is an observation, not a violation)".into(),
                "the `roles` map of root is not extended with unknown roles (the TUF specification fixes its member set)".into(),
            ],
            required_hist: required,
            min_evaluations: 600,
        },
        start.elapsed(),
    )
}
