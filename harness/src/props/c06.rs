//! C06 — target bytes delivered to the caller are exactly the signed content.

use crate::client::{self, LoadOpts};
use crate::forge::*;
use crate::json::{sha256, sha256_hex, J};
use crate::memtransport::{Chunking, Fault, MemTransport};
use crate::obj;
use crate::rng::Rng;
use crate::run::*;
use futures::StreamExt;
use std::cell::RefCell;
use std::collections::HashMap;
use std::time::{Duration, Instant};
use tough::TargetName;

const SIZES: [usize; 9] = [0, 1, 2, 63, 64, 65, 256, 4096, 65536];
const DEPTHS: [&str; 3] = ["top", "d1", "d2"];

fn content_for(name: &str, size: usize) -> Vec<u8> {
    Rng::new(crate::rng::fnv(name)).bytes(size)
}

fn tname(size: usize, depth: usize, twin: bool, padded: bool) -> String {
    let base = format!(
        "s{size}{}{}.bin",
        if twin { "-twin" } else { "" },
        if padded { "-padded" } else { "" }
    );
    match depth {
        0 => base,
        1 => format!("d1/{base}"),
        _ => format!("d1/d2/{base}"),
    }
}

const PAD: u64 = 10;

struct Fixture {
    repo: tough::Repository,
    t: MemTransport,
    _dir: std::path::PathBuf,
}

fn entry(name: &str, size: usize, padded: bool) -> (String, J) {
    let c = content_for(name, size);
    let mut e = target_entry(&c, None);
    if padded {
        e.set("length", size as u64 + PAD);
    }
    (name.to_string(), e)
}

fn build_fixture(w: &mut Worker, consistent: bool) -> Fixture {
    let keys = RootKeys::simple();
    let mut files = std::collections::BTreeMap::new();
    let root = crate::json::render(
        &sign_with(&root_signed(1, consistent, FAR, &keys), &keys.root.keys),
        crate::json::Style::Compact,
    );
    files.insert(meta_path(consistent, 1, "root"), root.clone());
    let mut per_depth: Vec<Vec<(String, J)>> = vec![vec![], vec![], vec![]];
    for depth in 0..3 {
        for size in SIZES {
            for (twin, padded) in [(false, false), (true, false), (false, true)] {
                let n = tname(size, depth, twin, padded);
                let (k, e) = entry(&n, size, padded);
                let c = content_for(&n, size);
                files.insert(target_path(consistent, &n, &c), c);
                per_depth[depth].push((k, e));
            }
        }
    }
    let d2 = sign_with(&targets_signed(1, FAR, per_depth[2].clone(), None), &[6]);
    let d1 = sign_with(
        &targets_signed(
            1,
            FAR,
            per_depth[1].clone(),
            Some(delegations(
                &[6],
                vec![delegated_role_entry("d2", &[6], 1, &Paths::Patterns(vec!["d1/d2/*".into()]), false)],
            )),
        ),
        &[5],
    );
    // `dx` is a sibling of `d1`, listed BEFORE it, trusted for "dx/*" only; it nevertheless lists every
    // name below d1/ with the digest of that name's twin. Its entries are not authorised entries: reads
    // of d1/... must keep using what d1 (or d2) signed.
    let mut dx_entries: Vec<(String, J)> = Vec::new();
    for depth in 1..3 {
        for size in SIZES {
            for padded in [false, true] {
                let n = tname(size, depth, false, padded);
                let twin = tname(size, depth, true, false);
                dx_entries.push((n, entry(&twin, size, false).1));
            }
        }
    }
    let dx = sign_with(&targets_signed(1, FAR, dx_entries, None), &[7]);
    let tg = sign_with(
        &targets_signed(
            1,
            FAR,
            per_depth[0].clone(),
            Some(delegations(
                &[7, 5],
                vec![
                    delegated_role_entry("dx", &[7], 1, &Paths::Patterns(vec!["dx/*".into()]), false),
                    delegated_role_entry("d1", &[5], 1, &Paths::Patterns(vec!["d1/*".into()]), false),
                ],
            )),
        ),
        &keys.targets.keys,
    );
    let style = crate::json::Style::Compact;
    files.insert(meta_path(consistent, 1, "d2"), crate::json::render(&d2, style));
    files.insert(meta_path(consistent, 1, "d1"), crate::json::render(&d1, style));
    files.insert(meta_path(consistent, 1, "dx"), crate::json::render(&dx, style));
    files.insert(meta_path(consistent, 1, "targets"), crate::json::render(&tg, style));
    let snap = sign_with(
        &snapshot_signed(
            1,
            FAR,
            vec![
                ("targets.json".into(), metafile(1, None, None)),
                ("d1.json".into(), metafile(1, None, None)),
                ("d2.json".into(), metafile(1, None, None)),
                ("dx.json".into(), metafile(1, None, None)),
            ],
        ),
        &keys.snapshot.keys,
    );
    files.insert(meta_path(consistent, 1, "snapshot"), crate::json::render(&snap, style));
    let ts = sign_with(&timestamp_signed(1, FAR, metafile(1, None, None)), &keys.timestamp.keys);
    files.insert(meta_path(consistent, 1, "timestamp"), crate::json::render(&ts, style));
    let t = MemTransport::new(files);
    let dir = w.dir.join(format!("fixture-{consistent}"));
    let _ = std::fs::remove_dir_all(&dir);
    std::fs::create_dir_all(&dir).unwrap();
    let repo = w
        .rt
        .block_on(client::load(&root, &t, &dir, &LoadOpts::default(), Duration::from_secs(60)))
        .unwrap_or_else(|e| panic!("harness: C06 fixture does not load: {}", e.text()));
    Fixture { repo, t, _dir: dir }
}

thread_local! {
    static FIX: RefCell<HashMap<bool, std::rc::Rc<Fixture>>> = RefCell::new(HashMap::new());
}

#[derive(Clone, Debug)]
enum FaultSpec {
    None,
    FlipBit(usize),
    Truncate(usize),
    Extend(usize),
    SubstituteTwin,
    SubstituteOtherLength,
    Endless,
    ErrorAtChunk(usize),
    Unlisted,
}

#[derive(Clone, Debug)]
struct Case {
    size: usize,
    depth: usize,
    padded: bool,
    chunking: Chunking,
    fault: FaultSpec,
    consistent: bool,
}

fn chunking_name(c: &Chunking) -> String {
    match c {
        Chunking::Whole => "whole".into(),
        Chunking::Fixed(n) => format!("fixed-{n}"),
        Chunking::Random(_, m) => format!("random<={m}"),
        Chunking::WithEmpties(n) => format!("empties-{n}"),
    }
}

fn gen_cases(cfg: &Cfg) -> Vec<Case> {
    let mut v = Vec::new();
    let mut rr = 0usize;
    let chunkings_small = [Chunking::Fixed(1), Chunking::Fixed(7), Chunking::Whole, Chunking::WithEmpties(3), Chunking::Random(7, 9)];
    let mut push = |v: &mut Vec<Case>, size: usize, fault: FaultSpec, chunking: Option<Chunking>| {
        rr += 1;
        v.push(Case {
            size,
            depth: rr % 3,
            padded: rr % 5 == 0,
            chunking: chunking.unwrap_or_else(|| chunkings_small[rr % chunkings_small.len()].clone()),
            fault,
            consistent: rr % 2 == 0,
        });
    };
    // exhaustive positions for contents <= 256 bytes
    for size in [0usize, 1, 2, 63, 64, 65, 256] {
        push(&mut v, size, FaultSpec::None, None);
        for c in chunkings_small.iter() {
            push(&mut v, size, FaultSpec::None, Some(c.clone()));
        }
        for bit in 0..size * 8 {
            push(&mut v, size, FaultSpec::FlipBit(bit), None);
        }
        for n in 0..size {
            push(&mut v, size, FaultSpec::Truncate(n), None);
        }
        for n in 1..=12 {
            push(&mut v, size, FaultSpec::Extend(n), None);
        }
        // error at every chunk index for 1-byte and 7-byte chunkings
        for k in 0..=size {
            push(&mut v, size, FaultSpec::ErrorAtChunk(k), Some(Chunking::Fixed(1)));
        }
        for k in 0..=(size / 7 + 1) {
            push(&mut v, size, FaultSpec::ErrorAtChunk(k), Some(Chunking::Fixed(7)));
        }
        push(&mut v, size, FaultSpec::SubstituteTwin, None);
        push(&mut v, size, FaultSpec::SubstituteOtherLength, None);
        push(&mut v, size, FaultSpec::Endless, Some(Chunking::Fixed(1)));
        push(&mut v, size, FaultSpec::Endless, Some(Chunking::Fixed(4096)));
        push(&mut v, size, FaultSpec::Unlisted, None);
    }
    // sampled positions for all sizes
    let n = cfg.tier.pick(25_000u64, 900_000);
    for i in 0..n {
        let mut r = Rng::for_case(cfg.seed, "C06", i);
        let size = *r.pick(&SIZES);
        let chunking = match r.usize(6) {
            0 => Chunking::Whole,
            1 => Chunking::Fixed(if size <= 4096 { 1 } else { 64 }),
            2 => Chunking::Fixed(7.max(size / 512)),
            3 => Chunking::Fixed(4096),
            4 => Chunking::Random(r.next(), 1 + size / 3),
            _ => Chunking::WithEmpties(1 + size / 5),
        };
        let fault = match r.usize(12) {
            0 => FaultSpec::None,
            1 | 2 | 3 if size > 0 => FaultSpec::FlipBit(r.usize(size * 8)),
            4 | 5 if size > 0 => FaultSpec::Truncate(r.usize(size)),
            6 => FaultSpec::Extend(1 + r.usize(5000)),
            7 => FaultSpec::SubstituteTwin,
            8 => FaultSpec::SubstituteOtherLength,
            9 => FaultSpec::Endless,
            10 => FaultSpec::ErrorAtChunk(r.usize(20)),
            _ => FaultSpec::Extend(1 + r.usize(PAD as usize)),
        };
        v.push(Case {
            size,
            depth: r.usize(3),
            padded: r.chance(1, 4),
            chunking,
            fault,
            consistent: r.bool(),
        });
    }
    v
}

fn size_class(s: usize) -> &'static str {
    match s {
        0 => "0",
        1..=2 => "1-2",
        3..=65 => "63-65",
        66..=256 => "256",
        257..=4096 => "4KiB",
        _ => "64KiB",
    }
}

fn run_case(w: &mut Worker, c: &Case) -> CaseOut {
    let mut out = CaseOut::default();
    let fx = FIX.with(|f| f.borrow().get(&c.consistent).cloned());
    let fx = match fx {
        Some(f) => f,
        None => {
            let f = std::rc::Rc::new(build_fixture(w, c.consistent));
            FIX.with(|m| m.borrow_mut().insert(c.consistent, f.clone()));
            f
        }
    };
    let name = tname(c.size, c.depth, false, c.padded);
    let content = content_for(&name, c.size);
    let signed_len = c.size as u64 + if c.padded { PAD } else { 0 };
    let path = target_path(c.consistent, &name, &content);
    let t = &fx.t;
    t.clear_log();
    t.clear_faults();
    t.set_chunking(&path, c.chunking.clone());
    let twin_name = tname(c.size, c.depth, true, false);
    let (fault, alters) = match &c.fault {
        FaultSpec::None | FaultSpec::Unlisted => (Fault::None, false),
        FaultSpec::FlipBit(b) => (Fault::FlipBit(*b), c.size > 0),
        FaultSpec::Truncate(n) => (Fault::Truncate(*n), *n < c.size),
        FaultSpec::Extend(n) => (Fault::Extend(*n), true),
        FaultSpec::SubstituteTwin => {
            let tw = content_for(&twin_name, c.size);
            let differs = tw != content;
            (Fault::Substitute(tw), differs)
        }
        FaultSpec::SubstituteOtherLength => {
            let other = content_for("other-length", c.size / 2 + 3);
            let differs = other != content;
            (Fault::Substitute(other), differs)
        }
        FaultSpec::Endless => (Fault::Endless, true),
        FaultSpec::ErrorAtChunk(k) => (Fault::ErrorAtChunk(*k), true),
    };
    t.set_fault(&path, fault);
    let ask = if matches!(c.fault, FaultSpec::Unlisted) {
        format!("{}.not-listed", name)
    } else {
        name.clone()
    };
    let tn = TargetName::new(ask.clone()).unwrap();
    let wd = client::watchdog(w.cfg.tier);
    // (delivered bytes, ended_without_error, error text, bytes delivered after the first error)
    let res = w.rt.block_on(async {
        tokio::time::timeout(wd, async {
            match fx.repo.read_target(&tn).await {
                Err(e) => Err(client::full_error(&e)),
                Ok(None) => Ok(None),
                Ok(Some(mut s)) => {
                    let mut got: Vec<u8> = Vec::new();
                    let mut err: Option<String> = None;
                    let mut after_err = 0usize;
                    let mut extra_polls = 0;
                    let mut pulled_at_end: Option<u64> = None;
                    while let Some(item) = s.next().await {
                        match item {
                            Ok(b) => {
                                if err.is_some() {
                                    after_err += b.len();
                                }
                                got.extend_from_slice(&b);
                            }
                            Err(e) => {
                                if err.is_none() {
                                    err = Some(client::full_error(&e));
                                    // what the client had pulled when it reported the first error
                                    pulled_at_end = Some(t.pulled_max_single(&path));
                                }
                            }
                        }
                        if err.is_some() {
                            extra_polls += 1;
                            if extra_polls > 4 {
                                break;
                            }
                        }
                    }
                    let pulled = pulled_at_end.unwrap_or_else(|| t.pulled_max_single(&path));
                    Ok(Some((got, err, after_err, pulled)))
                }
            }
        })
        .await
    });
    out.evals = 1;
    let fault_kind = match &c.fault {
        FaultSpec::None => "none",
        FaultSpec::FlipBit(_) => "bitflip",
        FaultSpec::Truncate(_) => "truncate",
        FaultSpec::Extend(_) => "extend",
        FaultSpec::SubstituteTwin => "substitute-same-length",
        FaultSpec::SubstituteOtherLength => "substitute-other-length",
        FaultSpec::Endless => "endless",
        FaultSpec::ErrorAtChunk(_) => "transport-error",
        FaultSpec::Unlisted => "unlisted-name",
    };
    let observed;
    match res {
        Err(_) => {
            out.inconc("watchdog");
            observed = "watchdog".to_string();
        }
        Ok(Err(e)) => {
            observed = format!("read_target error: {e}");
            out.broken = Some(format!("read_target itself failed: {e}"));
        }
        Ok(Ok(None)) => {
            observed = "not found".to_string();
            if !matches!(c.fault, FaultSpec::Unlisted) {
                out.viol("listed-target-not-found", format!("{ask} is listed but read_target returned None"));
            }
        }
        Ok(Ok(Some((got, err, after_err, pulled)))) => {
            observed = format!(
                "{} bytes delivered, {}",
                got.len(),
                err.as_ref().map_or("ended without error".to_string(), |e| format!("error: {e}"))
            );
            if matches!(c.fault, FaultSpec::Unlisted) {
                out.viol("unlisted-served", format!("{ask} is not listed but a stream was returned"));
            }
            if got.len() as u64 > signed_len {
                out.viol(
                    format!("over-length-delivered:fault={fault_kind}"),
                    format!("{} bytes handed to the caller, signed length {signed_len}", got.len()),
                );
            }
            if after_err > 0 {
                out.obs("data-after-error");
            }
            if err.is_none() {
                if sha256(&got) != sha256(&content) {
                    out.viol(
                        format!("bad-bytes-delivered:fault={fault_kind}"),
                        format!("stream ended without error but sha256 {} != signed {}", sha256_hex(&got), sha256_hex(&content)),
                    );
                }
            } else if !alters {
                out.viol(
                    format!("good-content-refused:chunking={}", chunking_name(&c.chunking).split('-').next().unwrap_or("")),
                    format!("unaltered content of {} bytes (signed length {signed_len}) ended in error: {}", c.size, err.unwrap()),
                );
            }
            // endless data must be cut: at most signed length + one chunk pulled from the transport
            let chunk = match &c.chunking {
                Chunking::Whole => (c.size as u64 + 5000).max(4096),
                Chunking::Fixed(n) | Chunking::WithEmpties(n) => (*n as u64).max(4096),
                Chunking::Random(_, m) => (*m as u64).max(4096),
            };
            if pulled > signed_len + chunk + 4096 {
                out.viol(
                    format!("endless-not-cut:fault={fault_kind}"),
                    format!("{pulled} bytes pulled from the transport for signed length {signed_len}"),
                );
            }
        }
    }
    // digest prefix under consistent snapshots
    let log = t.log_paths();
    if c.consistent && !matches!(c.fault, FaultSpec::Unlisted) {
        let want = target_path(true, &name, &content);
        if log.iter().any(|p| p.starts_with("/targets/") && *p != want) || !log.contains(&want) {
            out.viol("no-digest-prefix", format!("requested {log:?}, expected {want}"));
        }
    }
    out.h(format!("fault={fault_kind}"));
    out.h(format!("fault={fault_kind}:size={}", size_class(c.size)));
    out.h(format!("depth={}", DEPTHS[c.depth]));
    out.h(format!("chunking={}", chunking_name(&c.chunking).split('-').next().unwrap_or("")));
    if c.padded {
        out.h("signed-length-larger-than-content");
    }
    let pos_class = match &c.fault {
        FaultSpec::FlipBit(b) => format!("bit{}", if *b < 8 { "first-byte" } else if *b >= c.size.saturating_sub(1) * 8 { "last-byte" } else { "middle" }),
        FaultSpec::Truncate(n) => format!("trunc{}", if *n == 0 { "0" } else if *n + 1 == c.size { "len-1" } else { "mid" }),
        FaultSpec::ErrorAtChunk(k) => format!("chunk{}", (*k).min(3)),
        FaultSpec::Extend(n) => format!("ext{}", if *n <= PAD as usize { "small" } else { "large" }),
        _ => String::new(),
    };
    out.fingerprint = Some(format!(
        "{}|{}|{}|{fault_kind}|{pos_class}|{}|{}|{}",
        size_class(c.size),
        c.size,
        chunking_name(&c.chunking),
        c.depth,
        c.consistent,
        c.padded
    ));
    out.nontrivial = !matches!(c.fault, FaultSpec::None);
    out.desc = Some(obj! {
        "target" => name.as_str(), "content_bytes" => c.size, "signed_length" => signed_len,
        "role_depth" => DEPTHS[c.depth], "consistent_snapshot" => c.consistent,
        "chunking" => chunking_name(&c.chunking), "fault" => format!("{:?}", c.fault),
        "observed" => observed,
        "requests" => J::A(log.into_iter().map(J::S).collect()),
    });
    out
}

pub fn run(cfg: &Cfg) -> i32 {
    let start = Instant::now();
    let _ = crate::keys::pool();
    let cases = gen_cases(cfg);
    let budget = cfg.tier.pick(Duration::from_secs(240), Duration::from_secs(1500));
    let mut ev = par_run(cfg, cases.len() as u64, budget, |w, i| cases.get(i as usize).map(|c| run_case(w, c)));
    FIX.with(|m| m.borrow_mut().clear());
    crate::memcheck::run(cfg, &mut ev, crate::memcheck::Leg { processes: 16, modulus: 16, limit: Duration::from_secs(900) });
    let mut required = Vec::new();
    for f in ["none", "bitflip", "truncate", "extend", "substitute-same-length", "substitute-other-length", "endless", "transport-error", "unlisted-name"] {
        required.push(format!("fault={f}"));
    }
    for d in DEPTHS {
        required.push(format!("depth={d}"));
    }
    for s in ["0", "1-2", "63-65", "256", "4KiB", "64KiB"] {
        required.push(format!("fault=none:size={s}"));
        required.push(format!("fault=endless:size={s}"));
    }
    required.push("signed-length-larger-than-content".into());
    finish(
        cfg,
        ev,
        Finish {
            level: "fault_enumeration",
            rule: "read_target streams of the real client over a faulty in-memory transport: contents of 0,1,2,63,64,65,256,4096,65536 bytes at role depth 0/1/2, both consistent-snapshot settings, signed length = or > content; for contents <= 256 B every bit flip, every truncation point, every chunk index for a transport error (1- and 7-byte chunks), extensions 1..12, substitution by a same-length and a different-length signed target, endless streams, unlisted names; sampled positions for all sizes with whole/fixed/random/with-empty-chunks chunkings. Oracle: SHA-256 and length of what the caller received vs the signed entry; bytes pulled from the transport. Fingerprint = (size, chunking, fault kind, position class, depth, consistent, padded); non-trivial = a fault is injected.",
            assumptions: vec![
                "one repository fixture per worker and consistent-snapshot setting is loaded once; faults are applied per read".into(),
            ],
            required_hist: required,
            min_evaluations: 5000,
        },
        start.elapsed(),
    )
}
