//! C19 — a cached (cloned) repository is a faithful, loadable copy.

use crate::client::{self, LoadOpts};
use crate::forge::*;
use crate::fstree;
use crate::json::{render, sha256_hex, Style, J};
use crate::memtransport::{Fault, MemTransport};
use crate::obj;
use crate::rng::Rng;
use crate::run::*;
use crate::specgen::*;
use futures::StreamExt;
use std::path::Path;
use std::time::{Duration, Instant};
use tough::{FilesystemTransport, RepositoryLoader, TargetName};
use url::Url;

pub async fn load_dir(root: &[u8], md: &Path, tg: &Path, ds: &Path, wd: Duration) -> Result<tough::Repository, String> {
    let root = root.to_vec();
    let l = RepositoryLoader::new(&root, Url::from_directory_path(md).unwrap(), Url::from_directory_path(tg).unwrap())
        .transport(FilesystemTransport)
        .datastore(ds);
    match tokio::time::timeout(wd, l.load()).await {
        Err(_) => Err("watchdog".into()),
        Ok(Ok(r)) => Ok(r),
        Ok(Err(e)) => Err(client::full_error(&e)),
    }
}

pub async fn read_all(repo: &tough::Repository, raw: &str, wd: Duration) -> Result<Option<Vec<u8>>, String> {
    let tn = TargetName::new(raw.to_string()).map_err(|e| e.to_string())?;
    let r = tokio::time::timeout(wd, async {
        match repo.read_target(&tn).await {
            Err(e) => Err(client::full_error(&e)),
            Ok(None) => Ok(None),
            Ok(Some(mut s)) => {
                let mut v = Vec::new();
                while let Some(c) = s.next().await {
                    match c {
                        Ok(b) => v.extend_from_slice(&b),
                        Err(e) => return Err(client::full_error(&e)),
                    }
                }
                Ok(Some(v))
            }
        }
    })
    .await;
    match r {
        Err(_) => Err("watchdog".into()),
        Ok(x) => x,
    }
}

fn run_case(w: &mut Worker, i: u64) -> CaseOut {
    let mut out = CaseOut::default();
    let mut r = Rng::for_case(w.cfg.seed, "C19", i);
    // one case in eight goes through `tuftool clone` (source read through file:// URLs, so its
    // target names are URL-inert; role names stay arbitrary)
    let cli = i % 8 == 3 && Path::new(crate::props::c20::TUFTOOL).exists();
    let opts = GenOpts {
        odd_target_names: !cli && r.chance(1, 2),
        odd_role_names: r.chance(1, 2),
        extras: false,
        max_depth: r.usize(4),
        big_delegated: r.chance(1, 4),
    };
    let mut spec = gen_spec(&mut r, &opts);
    // one case in three (library path): a top-level target whose name needs resolution - it is listed
    // under the raw name, requested and stored under the resolved one
    let mut needs_resolution = false;
    if !cli && r.chance(1, 3) {
        if let Some(t) = spec.targets.iter_mut().find(|t| name_class(&t.name) == "inert" && !t.name.contains('/')) {
            t.name = format!("zz-res/../{}", t.name);
            needs_resolution = true;
        }
    }
    let nroots = 1 + r.below(3);
    spec.root_version = nroots;
    let mut built = build(&spec);
    // older roots (same keys), each signed by the root key
    let mut root_bytes = vec![Vec::new(); nroots as usize + 1];
    root_bytes[nroots as usize] = built.root_bytes.clone();
    for v in 1..nroots {
        let b = render(&sign_with(&root_signed(v, spec.consistent, FAR, &spec.keys), &spec.keys.root.keys), Style::Pretty);
        built.files.insert(meta_path(spec.consistent, v, "root"), b.clone());
        root_bytes[v as usize] = b;
    }
    let dir = w.case_dir();
    let srcdir = dir.join("src");
    if cli {
        // `tuftool clone` reads the source through file:// URLs
        for (k, v) in &built.files {
            let p = srcdir.join(k.trim_start_matches('/'));
            std::fs::create_dir_all(p.parent().unwrap()).unwrap();
            std::fs::write(p, v).unwrap();
        }
    }
    rekey_targets_for_url(&mut built, &spec);
    let shipped_version = if r.bool() { 1 } else { nroots };
    let shipped = root_bytes[shipped_version as usize].clone();
    let t = MemTransport::new(built.files.clone());
    let wd = client::watchdog(w.cfg.tier);
    let src_ds = dir.join("src-ds");
    std::fs::create_dir_all(&src_ds).unwrap();
    let src = match w.rt.block_on(client::load(&shipped, &t, &src_ds, &LoadOpts::default(), wd)) {
        Ok(r) => r,
        Err(client::LoadErr::Watchdog) => {
            out.inconc("watchdog");
            return out;
        }
        Err(e) => {
            out.broken = Some(format!("C19 source repository does not load: {}", e.text()));
            return out;
        }
    };
    out.evals = 1;
    let all: Vec<&TargetSpec> = all_targets(&spec);
    // subset
    let subset: Option<Vec<String>> = if r.chance(1, 3) || all.is_empty() {
        None
    } else {
        let n = r.usize(all.len() + 1);
        let mut idx: Vec<usize> = (0..all.len()).collect();
        r.shuffle(&mut idx);
        Some(idx.into_iter().take(n).map(|k| all[k].name.clone()).collect())
    };
    let requested: Vec<&TargetSpec> = match &subset {
        None => all.clone(),
        Some(s) => all.iter().filter(|t| s.contains(&t.name)).copied().collect(),
    };
    let chain = r.bool() || cli; // tuftool clone always copies the root chain
    // optional corruption of one requested target at the source
    let corrupt: Option<&TargetSpec> = if !requested.is_empty() && r.chance(1, 4) {
        Some(requested[r.usize(requested.len())])
    } else {
        None
    };
    if let Some(c) = corrupt {
        let cname = crate::specgen::requested_name(&c.name);
        let fname = if spec.consistent { format!("{}.{}", sha256_hex(&c.content), cname) } else { cname };
        if let Some(k) = url_key(crate::memtransport::TARGETS_BASE, &fname) {
            t.set_fault(&k, if c.content.is_empty() { Fault::Extend(3) } else { Fault::FlipBit(c.content.len() * 4) });
        }
        if cli {
            let p = srcdir.join("targets").join(&fname);
            let mut b = c.content.clone();
            if b.is_empty() {
                b.extend_from_slice(b"xyz");
            } else {
                let m = b.len() / 2;
                b[m] ^= 0x10;
            }
            std::fs::write(p, b).unwrap();
        }
    }
    let parent = dir.join("parent");
    let md = parent.join("md");
    let tg = parent.join("tg");
    std::fs::create_dir_all(&parent).unwrap();
    std::fs::write(parent.join("sentinel"), b"s").unwrap();
    let before = fstree::snapshot(&parent);
    // (ok?, text) of the caching step, through the library or through the command line tool
    let cres: (bool, String) = if cli {
        out.h("via=tuftool-clone");
        let shipped_path = dir.join("shipped-root.json");
        std::fs::write(&shipped_path, &shipped).unwrap();
        let mut cmd = std::process::Command::new(crate::props::c20::TUFTOOL);
        cmd.arg("clone")
            .args(["--root", shipped_path.to_str().unwrap()])
            .args(["--metadata-url", &format!("file://{}/", srcdir.join("metadata").to_str().unwrap())])
            .args(["--targets-url", &format!("file://{}/", srcdir.join("targets").to_str().unwrap())])
            .args(["--metadata-dir", md.to_str().unwrap()])
            .args(["--targets-dir", tg.to_str().unwrap()]);
        if let Some(s) = &subset {
            for n in s {
                cmd.args(["-n", n]);
            }
        }
        cmd.env("RUST_BACKTRACE", "0").env("RUST_LIB_BACKTRACE", "0");
        match cmd.stdin(std::process::Stdio::null()).output() {
            Err(e) => (false, format!("cannot run tuftool: {e}")),
            Ok(o) if o.status.success() => (true, "ok".into()),
            Ok(o) => (false, format!("tuftool clone failed: {}", String::from_utf8_lossy(&o.stderr).chars().take(300).collect::<String>())),
        }
    } else {
        out.h("via=library");
        let r = w.rt.block_on(async {
            tokio::time::timeout(wd, async {
                match &subset {
                    None => src.cache(&md, &tg, None::<&[String]>, chain).await,
                    Some(s) => src.cache(&md, &tg, Some(s.as_slice()), chain).await,
                }
            })
            .await
        });
        match r {
            Err(_) => (false, "watchdog".to_string()),
            Ok(Ok(())) => (true, "ok".to_string()),
            Ok(Err(e)) => (false, client::full_error(&e)),
        }
    };
    out.evals += 1;
    let after = fstree::snapshot(&parent);
    let d = fstree::diff(&before, &after);
    for p in d.non_dir_changes() {
        if !(p.starts_with(&md) || p.starts_with(&tg)) {
            out.viol("escape", format!("cache() changed {} outside of {} and {}", p.display(), md.display(), tg.display()));
        }
    }
    let (cache_ok, cache_txt) = cres;
    if cache_txt == "watchdog" {
        out.inconc("watchdog");
    }
    let expected_file = |t: &TargetSpec| -> std::path::PathBuf {
        let tn = TargetName::new(t.name.clone()).unwrap();
        if spec.consistent {
            tg.join(format!("{}.{}", sha256_hex(&t.content), tn.resolved()))
        } else {
            tg.join(tn.resolved())
        }
    };
    let mut notes: Vec<String> = Vec::new();
    if let Some(c) = corrupt {
        if cache_ok {
            out.viol("corrupt-source-cached-ok", format!("source target {:?} was corrupted but cache() succeeded", c.name));
        }
        // whatever happened, the corrupted target must not be in tg/
        for (p, e) in &after {
            if let fstree::Entry::File { sha256, .. } = e {
                if p.starts_with(&tg) && *p == expected_file(c) && *sha256 != sha256_hex(&c.content) {
                    out.viol("corrupt-target-stored", format!("{} holds unverified content", p.display()));
                }
            }
        }
        // no file in tg/ may hold content that is not the signed content of some target
        let good: Vec<String> = all.iter().map(|t| sha256_hex(&t.content)).collect();
        for (p, e) in &after {
            if let fstree::Entry::File { sha256, .. } = e {
                if p.starts_with(&tg) && !good.contains(sha256) {
                    out.viol("corrupt-target-stored", format!("{} holds content that is no signed target", p.display()));
                }
            }
        }
        out.h("source-target-corrupted");
    } else if !cache_ok && cache_txt != "watchdog" {
        out.viol("cache-failed", format!("cache() of a valid repository failed: {cache_txt}"));
    }
    if cache_ok && corrupt.is_none() {
        // root chain
        if chain {
            for v in 1..=nroots {
                let p = md.join(format!("{v}.root.json"));
                match std::fs::read(&p) {
                    Ok(b) if b == root_bytes[v as usize] => {}
                    Ok(_) => out.viol("root-chain-differs", format!("{v}.root.json differs from the source")),
                    Err(_) => out.viol("root-chain-gap", format!("{v}.root.json missing although the trusted root is {nroots}")),
                }
            }
            out.h("with-root-chain");
        }
        // the copy must load with the root the source client trusts (and with the shipped one if the chain was copied)
        let mut roots_to_try = vec![("trusted-root", root_bytes[nroots as usize].clone())];
        if chain && shipped_version != nroots {
            roots_to_try.push(("shipped-root", shipped.clone()));
        }
        for (label, rb) in roots_to_try {
            let ds = dir.join(format!("copy-ds-{label}"));
            std::fs::create_dir_all(&ds).unwrap();
            let lr = w.rt.block_on(load_dir(&rb, &md, &tg, &ds, wd));
            out.evals += 1;
            match lr {
                Err(e) if e == "watchdog" => out.inconc("watchdog"),
                Err(e) => out.viol(format!("copy-unloadable:{label}"), format!("the cached copy does not load: {e}")),
                Ok(copy) => {
                    let same = copy.root().signed.version == src.root().signed.version
                        && copy.timestamp().signed.version == src.timestamp().signed.version
                        && copy.snapshot().signed.version == src.snapshot().signed.version
                        && copy.targets().signed.version == src.targets().signed.version;
                    if !same {
                        out.viol("copy-differs:versions", "role versions of the copy differ from the source".to_string());
                    }
                    for dg in all_delegs(&spec) {
                        let a = src.delegated_role(&dg.name).and_then(|r| r.targets.as_ref()).map(|t| t.signed.version);
                        let b = copy.delegated_role(&dg.name).and_then(|r| r.targets.as_ref()).map(|t| t.signed.version);
                        if a != b || a.is_none() {
                            out.viol("copy-differs:delegated-version", format!("role {:?}: source {:?} copy {:?}", dg.name, a, b));
                        }
                    }
                    if label == "trusted-root" {
                        for tspec in &requested {
                            let class = name_class(&tspec.name);
                            let rd = w.rt.block_on(read_all(&copy, &tspec.name, wd));
                            out.evals += 1;
                            match rd {
                                Ok(Some(b)) if b == tspec.content => {
                                    out.h(format!("target-read-back:class={class}"));
                                }
                                Ok(Some(_)) => out.viol(format!("copy-differs:target:class={class}"), format!("{:?} reads back with different bytes", tspec.name)),
                                Ok(None) => out.viol(format!("copy-target-not-listed:class={class}"), tspec.name.clone()),
                                Err(e) if e == "watchdog" => out.inconc("watchdog"),
                                Err(e) => {
                                    // is the file there under its literal name?
                                    let on_disk = std::fs::read(expected_file(tspec)).map(|b| b == tspec.content).unwrap_or(false);
                                    out.viol(
                                        format!("copy-target-unreadable:class={class}:stored-under-literal-name={on_disk}"),
                                        format!("{:?}: {e}", tspec.name),
                                    );
                                    notes.push(format!("{:?} unreadable from the copy", tspec.name));
                                }
                            }
                        }
                    }
                }
            }
        }
    }
    out.h(format!("subset={}", match &subset { None => "all".to_string(), Some(s) if s.is_empty() => "empty".into(), Some(_) => "some".into() }));
    out.h(format!("consistent={}", spec.consistent));
    if needs_resolution {
        out.h(format!("target-name-needs-resolution:consistent={}", spec.consistent));
    }
    out.h(format!("roots={nroots}"));
    out.h(format!("delegation-depth={}", opts.max_depth.min(3)));
    let nd = all_delegs(&spec).len();
    out.fingerprint = Some(format!("{i}"));
    out.nontrivial = nd > 0 || corrupt.is_some() || all.iter().any(|t| name_class(&t.name) != "inert");
    out.desc = Some(obj! {
        "consistent_snapshot" => spec.consistent, "root_versions" => nroots, "shipped_root" => shipped_version,
        "delegated_roles" => J::A(all_delegs(&spec).iter().map(|d| J::S(d.name.clone())).collect()),
        "targets" => J::A(all.iter().map(|t| J::S(t.name.clone())).collect()),
        "requested_subset" => match &subset { None => J::Null, Some(s) => J::A(s.iter().map(|x| J::S(x.clone())).collect()) },
        "with_root_chain" => chain,
        "corrupted_source_target" => corrupt.map_or(J::Null, |c| J::S(c.name.clone())),
        "cache_result" => cache_txt,
        "notes" => J::A(notes.into_iter().map(J::S).collect()),
    });
    w.cleanup(&dir);
    out
}

pub fn run(cfg: &Cfg) -> i32 {
    let start = Instant::now();
    let _ = crate::keys::pool();
    // the command line leg needs the tuftool binary built from /repo's working tree
    if let Err(e) = crate::props::c20::build_tuftool() {
        println!("BROKEN-HARNESS: {e}");
        return 2;
    }
    let n = cfg.tier.pick(1_500u64, 25_000);
    let budget = cfg.tier.pick(Duration::from_secs(400), Duration::from_secs(2400));
    let ev = par_run(cfg, n, budget, |w, i| Some(run_case(w, i)));
    let required = vec![
        "subset=all".into(),
        "subset=some".into(),
        "consistent=true".into(),
        "consistent=false".into(),
        "with-root-chain".into(),
        "source-target-corrupted".into(),
        "roots=3".into(),
        "delegation-depth=3".into(),
        "target-read-back:class=inert".into(),
        "via=library".into(),
        "via=tuftool-clone".into(),
    ];
    finish(
        cfg,
        ev,
        Finish {
            level: "exploration",
            rule: "seeded random repositories (delegation trees to depth 3 with 1..3 mixed-algorithm keys per role, odd role names, target names of every URL class, sizes 0..32 KiB, both consistent-snapshot settings, root chains of 1..3 versions, shipped root first or last) are served from memory, loaded by the real client and cached with cache(md, tg, subset|None, chain); tree snapshots of the parent directory, re-load of the copy through file:// with the trusted (and the shipped) root, role versions, byte-wise read-back of every requested target, presence of every root version, and a corrupted source target in a quarter of the cases. One evaluation = one load / cache / read-back. Non-trivial = delegations, odd names or a corruption present.",
            assumptions: vec!["the source repository is served from memory, so every name is fetchable at the source; what is judged is the copy".into()],
            required_hist: required,
            min_evaluations: 1000,
        },
        start.elapsed(),
    )
}
