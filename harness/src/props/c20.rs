//! C20 — tuftool root subcommands keep root.json well-formed, without stale signatures.

use crate::json::{refcanon, J};
use crate::keys::{key, keyid_of, pool, N_EC, N_ED};
use crate::obj;
use crate::rng::Rng;
use crate::run::*;
use std::path::{Path, PathBuf};
use std::process::{Command, Stdio};
use std::time::{Duration, Instant};
use tough::schema::{Root, Signed};

pub const TUFTOOL: &str = "/verif/.cache/target-repo2/debug/tuftool";

/// tuftool is built from /repo's working tree with the dev profile tuned through the environment
/// (opt-level 1, no debug info): a 30 MB binary that starts in ~30 ms instead of a 300 MB one
/// that needs ~250 ms per invocation.
pub fn build_tuftool() -> Result<(), String> {
    let st = Command::new("cargo")
        .args(["build", "--offline", "-p", "tuftool", "--bin", "tuftool"])
        .current_dir("/repo")
        .env("CARGO_NET_OFFLINE", "true")
        .env("CARGO_PROFILE_DEV_DEBUG", "0")
        .env("CARGO_PROFILE_DEV_OPT_LEVEL", "1")
        .env("CARGO_TARGET_DIR", "/verif/.cache/target-repo2")
        .stdout(Stdio::null())
        .stderr(Stdio::null())
        .status()
        .map_err(|e| e.to_string())?;
    if st.success() {
        Ok(())
    } else {
        Err("cargo build of tuftool failed".into())
    }
}

const ROLES: [&str; 4] = ["root", "snapshot", "targets", "timestamp"];
/// pool keys used as key files: RSA, Ed25519, ECDSA, Ed25519
const KEYS: [usize; 4] = [N_ED + N_EC, 0, N_ED, 1];

#[derive(Clone, Debug)]
enum Cmd {
    Init(Option<u64>),
    AddKey { keys: Vec<usize>, roles: Vec<usize> },
    RemoveKey { key: usize, role: Option<usize> },
    SetThreshold { role: usize, t: u64 },
    SetVersion(u64),
    BumpVersion,
    Expire(&'static str),
    Sign { keys: Vec<usize>, ignore: bool, cross: bool },
    /// harness action: remember the current file as "old root" for later --cross-sign
    SaveForCross,
    /// the wrapped subcommand runs with a file-size limit of 512 bytes (RLIMIT_FSIZE, SIGXFSZ ignored):
    /// whatever it writes beyond that fails with EFBIG - a disk-full-like fault in the middle of the write
    Faulted(Box<Cmd>),
}

fn kind(c: &Cmd) -> &'static str {
    match c {
        Cmd::Faulted(inner) => kind(inner),
        Cmd::Init(_) => "init",
        Cmd::AddKey { .. } => "add-key",
        Cmd::RemoveKey { .. } => "remove-key",
        Cmd::SetThreshold { .. } => "set-threshold",
        Cmd::SetVersion(_) => "set-version",
        Cmd::BumpVersion => "bump-version",
        Cmd::Expire(_) => "expire",
        Cmd::Sign { cross: true, .. } => "sign --cross-sign",
        Cmd::Sign { ignore: true, .. } => "sign --ignore-threshold",
        Cmd::Sign { .. } => "sign",
        Cmd::SaveForCross => "(save copy)",
    }
}

/// Structured sequences (the first cases of every run): thresholds of 2..3 root keys reached — or
/// not — by signing repeatedly with the same / with different keys, with and without
/// --ignore-threshold in between, for every kind of key file.
const TEMPLATES_A: u64 = 96;
const EDITS_AFTER_SIGN: u64 = 12;
/// index of a key file that does not exist
const MISSING_KEY: usize = 99;
const TEMPLATES_B: u64 = TEMPLATES_A + 4 * EDITS_AFTER_SIGN;
/// third family: the same edits, first under a write fault (must fail and leave the file as it was),
/// then for real
const TEMPLATES: u64 = TEMPLATES_B + 2 * EDITS_AFTER_SIGN;

/// Second family: a root that is completely signed, then ONE content-changing subcommand of every
/// kind (including those that change the signed content without changing the key table: an already
/// listed key added to another role, a key removed from one role only), then signing again.
fn template_edit_after_sign(j: u64) -> Vec<Cmd> {
    let k1 = (j % 4) as usize;
    let k2 = (k1 + 1) % 4;
    let k3 = (k1 + 2) % 4;
    let mut v = vec![
        Cmd::Init(None),
        Cmd::AddKey { keys: vec![k1], roles: vec![0, 1, 3] },
        Cmd::AddKey { keys: vec![k2], roles: vec![2] },
    ];
    for role in 0..4 {
        v.push(Cmd::SetThreshold { role, t: 1 });
    }
    v.push(Cmd::Sign { keys: vec![k1], ignore: false, cross: false });
    v.push(match j / 4 {
        0 => Cmd::AddKey { keys: vec![k1], roles: vec![2] },
        1 => Cmd::AddKey { keys: vec![k2], roles: vec![0] },
        2 => Cmd::AddKey { keys: vec![k3], roles: vec![] },
        3 => Cmd::AddKey { keys: vec![k1, k2], roles: vec![1, 2] },
        4 => Cmd::RemoveKey { key: k1, role: Some(3) },
        5 => Cmd::RemoveKey { key: k2, role: None },
        6 => Cmd::SetThreshold { role: 1, t: 2 },
        7 => Cmd::SetVersion(7),
        8 => Cmd::BumpVersion,
        9 => Cmd::Expire("2031-05-05T05:05:05Z"),
        // two key sources, the second cannot be loaded: the command fails and must not have written
        10 => Cmd::AddKey { keys: vec![k3, MISSING_KEY], roles: vec![0] },
        // a true no-op (key and role already listed): the signatures may stay or go
        _ => Cmd::AddKey { keys: vec![k1], roles: vec![0] },
    });
    v.push(Cmd::Sign { keys: vec![k1], ignore: false, cross: false });
    v
}

fn template(i: u64) -> Option<Vec<Cmd>> {
    let nk = KEYS.len() as u64; // 4 key files
    let shapes = 6u64;
    if i >= TEMPLATES_A && i < TEMPLATES_B {
        return Some(template_edit_after_sign(i - TEMPLATES_A));
    }
    if i >= TEMPLATES_B && i < TEMPLATES {
        // j = kind of edit * 4 + key file (key files 0 and 2 only)
        let j = i - TEMPLATES_B;
        let mut v = template_edit_after_sign((j / 2) * 4 + (j % 2) * 2);
        let n = v.len();
        let edit = v[n - 2].clone();
        v.insert(n - 2, Cmd::Faulted(Box::new(edit)));
        v.push(Cmd::Faulted(Box::new(Cmd::Sign { keys: vec![((j % 2) * 2) as usize], ignore: false, cross: false })));
        return Some(v);
    }
    if i >= nk * nk * shapes {
        return None;
    }
    let k1 = (i % nk) as usize;
    let k2 = ((i / nk) % nk) as usize;
    let shape = i / (nk * nk);
    if k1 == k2 {
        return Some(vec![Cmd::Init(None), Cmd::BumpVersion]);
    }
    let k3 = (0..KEYS.len()).find(|k| *k != k1 && *k != k2).unwrap();
    let mut v = vec![Cmd::Init(None), Cmd::AddKey { keys: vec![k1, k2, k3], roles: vec![0, 1, 2, 3] }];
    for role in 1..4 {
        v.push(Cmd::SetThreshold { role, t: 1 });
    }
    let t = if shape % 2 == 0 { 2 } else { 3 };
    v.push(Cmd::SetThreshold { role: 0, t });
    let s = |keys: Vec<usize>, ignore: bool| Cmd::Sign { keys, ignore, cross: false };
    match shape / 2 {
        0 => {
            // same key again and again
            v.push(s(vec![k1], true));
            v.push(s(vec![k1], false));
            v.push(s(vec![k1], false));
            v.push(s(vec![k1, k2], false));
        }
        1 => {
            // one key at a time until the threshold is really met
            v.push(s(vec![k1], true));
            v.push(s(vec![k2], true));
            v.push(s(vec![k1], false));
            v.push(s(vec![k3], false));
        }
        _ => {
            // edit in between: signatures must be gone, the count starts again
            v.push(s(vec![k1, k2], true));
            v.push(Cmd::BumpVersion);
            v.push(s(vec![k1], true));
            v.push(s(vec![k1], false));
            v.push(s(vec![k2], false));
        }
    }
    Some(v)
}

fn gen_seq(r: &mut Rng) -> Vec<Cmd> {
    let n = 3 + r.usize(10);
    let mut v = vec![Cmd::Init(if r.chance(1, 4) { Some(*r.pick(&[1u64, 2, 7, 1 << 32])) } else { None })];
    // a prologue that usually makes the root signable
    if r.chance(3, 4) {
        let k = r.usize(3);
        v.push(Cmd::AddKey { keys: vec![k], roles: vec![0, 1, 2, 3] });
        for role in 0..4 {
            v.push(Cmd::SetThreshold { role, t: 1 });
        }
    }
    let target = n.max(v.len() + 2).min(12);
    while v.len() < target {
        let c = match r.usize(13) {
            0 | 1 => {
                let nk = 1 + r.usize(3);
                let mut keys = Vec::new();
                while keys.len() < nk {
                    let k = r.usize(KEYS.len());
                    if !keys.contains(&k) {
                        keys.push(k);
                    }
                }
                let nr = r.usize(4);
                let mut roles = Vec::new();
                for _ in 0..nr {
                    let x = r.usize(4);
                    if !roles.contains(&x) {
                        roles.push(x);
                    }
                }
                Cmd::AddKey { keys, roles }
            }
            2 => Cmd::RemoveKey { key: r.usize(KEYS.len()), role: if r.bool() { Some(r.usize(4)) } else { None } },
            3 | 4 => Cmd::SetThreshold { role: r.usize(4), t: 1 + r.below(3) },
            5 => Cmd::SetVersion(*r.pick(&[1u64, 2, 3, 1000, 1 << 32])),
            6 => Cmd::BumpVersion,
            7 => Cmd::Expire(*r.pick(&["2100-01-01T00:00:00Z", "2031-05-05T05:05:05Z", "in 7 days", "in 2 weeks"])),
            8 => Cmd::SaveForCross,
            _ => {
                // mostly sign with keys that (according to the commands generated so far) are root keys,
                // so that a good share of the signs can succeed; the rest uses arbitrary key files
                let mut root_keys: Vec<usize> = Vec::new();
                for c in &v {
                    match c {
                        Cmd::AddKey { keys, roles } if roles.contains(&0) => {
                            for k in keys {
                                if !root_keys.contains(k) {
                                    root_keys.push(*k);
                                }
                            }
                        }
                        Cmd::RemoveKey { key, role } if role.is_none() || *role == Some(0) => root_keys.retain(|k| k != key),
                        Cmd::Init(_) => root_keys.clear(),
                        _ => {}
                    }
                }
                let mut keys = Vec::new();
                if !root_keys.is_empty() && r.chance(3, 4) {
                    let nk = 1 + r.usize(root_keys.len());
                    r.shuffle(&mut root_keys);
                    keys.extend(root_keys.into_iter().take(nk));
                } else {
                    let nk = 1 + r.usize(3);
                    while keys.len() < nk {
                        let k = r.usize(KEYS.len());
                        if !keys.contains(&k) {
                            keys.push(k);
                        }
                    }
                }
                Cmd::Sign { keys, ignore: r.chance(1, 5), cross: r.chance(1, 6) }
            }
        };
        // one command in eight runs under a write fault
        let c = if r.chance(1, 8) && !matches!(c, Cmd::SaveForCross | Cmd::Init(_)) { Cmd::Faulted(Box::new(c)) } else { c };
        v.push(c);
    }
    v
}

fn key_path(dir: &Path, k: usize) -> PathBuf {
    dir.join(format!("key-{k}"))
}

/// Independent check: number of distinct root-role keys with a valid signature over the
/// reference canonical form of `signed`.
fn own_valid_signers(doc: &J) -> Result<(u64, u64), String> {
    let signed = doc.get("signed").ok_or("no signed")?;
    let msg = refcanon(signed).map_err(|e| format!("{e:?}"))?;
    let role = signed.at("roles").get("root").ok_or("no root role")?;
    let threshold = role.at("threshold").as_u64().ok_or("threshold")?;
    let keyids: Vec<String> = role.at("keyids").items().iter().filter_map(|x| x.as_str().map(|s| s.to_lowercase())).collect();
    let table = signed.at("keys");
    let mut good: Vec<String> = Vec::new();
    for s in doc.at("signatures").items() {
        let kid = s.at("keyid").as_str().unwrap_or("").to_lowercase();
        if !keyids.contains(&kid) || table.get(&kid).is_none() || good.contains(&kid) {
            continue;
        }
        let sig = hex::decode(s.at("sig").as_str().unwrap_or("")).unwrap_or_default();
        // find the pool key with this id
        if let Some(pk) = pool().iter().find(|k| k.id() == kid) {
            if pk.verify(&msg, &sig) {
                good.push(kid);
            }
        }
    }
    Ok((good.len() as u64, threshold))
}

fn run_case(w: &mut Worker, i: u64) -> CaseOut {
    let mut out = CaseOut::default();
    let mut r = Rng::for_case(w.cfg.seed, "C20", i);
    let seq = match template(i) {
        Some(t) => {
            out.h("sequence=template");
            t
        }
        None => {
            out.h("sequence=seeded-random");
            gen_seq(&mut r)
        }
    };
    let dir = w.case_dir();
    for (k, pk) in KEYS.iter().enumerate() {
        std::fs::write(key_path(&dir, k), key(*pk).private_file()).unwrap();
    }
    let root = dir.join("root.json");
    let saved = dir.join("old-root.json");
    let mut have_saved = false;
    let mut cross_sig_since_change = false;
    let mut log: Vec<J> = Vec::new();
    let mut kinds: Vec<&'static str> = Vec::new();
    for c in &seq {
        if let Cmd::SaveForCross = c {
            if root.exists() {
                std::fs::copy(&root, &saved).unwrap();
                have_saved = true;
            }
            continue;
        }
        let (c, faulted) = match c {
            Cmd::Faulted(inner) => (&**inner, true),
            other => (other, false),
        };
        let before = std::fs::read(&root).ok();
        let before_j = before.as_ref().and_then(|b| J::parse(b).ok());
        let mut cmd = Command::new(TUFTOOL);
        cmd.arg("root");
        let rp = root.to_str().unwrap().to_string();
        let mut this_cross = false;
        match c {
            Cmd::Init(v) => {
                cmd.args(["init", &rp]);
                if let Some(v) = v {
                    cmd.args(["--version", &v.to_string()]);
                }
            }
            Cmd::AddKey { keys, roles } => {
                cmd.args(["add-key", &rp]);
                for k in keys {
                    cmd.args(["-k", key_path(&dir, *k).to_str().unwrap()]);
                }
                for ro in roles {
                    cmd.args(["-r", ROLES[*ro]]);
                }
            }
            Cmd::RemoveKey { key: k, role } => {
                cmd.args(["remove-key", &rp, &crate::keys::key(KEYS[*k]).id()]);
                if let Some(ro) = role {
                    cmd.arg(ROLES[*ro]);
                }
            }
            Cmd::SetThreshold { role, t } => {
                cmd.args(["set-threshold", &rp, ROLES[*role], &t.to_string()]);
            }
            Cmd::SetVersion(v) => {
                cmd.args(["set-version", &rp, &v.to_string()]);
            }
            Cmd::BumpVersion => {
                cmd.args(["bump-version", &rp]);
            }
            Cmd::Expire(t) => {
                cmd.args(["expire", &rp, t]);
            }
            Cmd::Sign { keys, ignore, cross } => {
                cmd.args(["sign", &rp]);
                for k in keys {
                    cmd.args(["-k", key_path(&dir, *k).to_str().unwrap()]);
                }
                if *ignore {
                    cmd.arg("--ignore-threshold");
                }
                if *cross && have_saved {
                    cmd.args(["--cross-sign", saved.to_str().unwrap()]);
                    this_cross = true;
                }
            }
            Cmd::SaveForCross | Cmd::Faulted(_) => unreachable!(),
        }
        // a set RUST_BACKTRACE makes every failing invocation symbolise a backtrace (~150 ms each)
        if faulted {
            let mut sh = Command::new("/bin/sh");
            sh.arg("-c").arg("trap '' XFSZ; ulimit -f 1; exec \"$0\" \"$@\"").arg(cmd.get_program());
            sh.args(cmd.get_args());
            cmd = sh;
        }
        cmd.env("RUST_BACKTRACE", "0").env("RUST_LIB_BACKTRACE", "0");
        let st = cmd.stdout(Stdio::null()).stderr(Stdio::null()).status();
        out.evals += 1;
        let ok = matches!(&st, Ok(s) if s.success());
        let after = std::fs::read(&root).ok();
        let name = kind(c);
        kinds.push(name);
        out.h(format!("cmd={name}:{}", if ok { "exit0" } else { "failed" }));
        if faulted {
            out.h(format!("write-fault:{}", if ok { "command-succeeded-all-the-same" } else { "command-failed" }));
        }
        let mut notes: Vec<String> = Vec::new();
        if !ok {
            // a failed command leaves the previous file intact (init may fail before any file exists)
            if before != after {
                out.viol(format!("failed-cmd-changed-file:cmd={name}"), format!("{c:?} exited with an error but root.json changed"));
            }
        } else {
            match after.as_ref().map(|b| (b, J::parse(b))) {
                None => out.viol(format!("no-file-after-success:cmd={name}"), format!("{c:?}")),
                Some((_, Err(e))) => out.viol(format!("unparsable-json:cmd={name}"), e),
                Some((bytes, Ok(doc))) => {
                    // (1) parseable root with correct key ids
                    if let Err(e) = serde_json::from_slice::<Signed<Root>>(bytes) {
                        out.viol(format!("not-a-root:cmd={name}"), e.to_string());
                    }
                    if let Some(J::O(tbl)) = doc.get("signed").and_then(|s| s.get("keys")) {
                        for (id, kj) in tbl {
                            if keyid_of(kj) != id.to_lowercase() {
                                out.viol(format!("bad-keyid:cmd={name}"), format!("listed {id}, digest of the key is {}", keyid_of(kj)));
                            }
                        }
                    }
                    // (2) content changed => no signatures may survive
                    let content_changed = match &before_j {
                        Some(bj) => refcanon(bj.at("signed")).ok() != doc.get("signed").and_then(|s| refcanon(s).ok()),
                        None => true,
                    };
                    let nsigs = doc.get("signatures").map_or(0, |s| s.items().len());
                    if content_changed && nsigs > 0 {
                        out.viol(format!("stale-signatures:cmd={name}"), format!("signed content changed but {nsigs} signature(s) are still attached"));
                    }
                    if content_changed {
                        cross_sig_since_change = false;
                        out.h("content-changed");
                    }
                    // (3) a plain successful sign leaves a self-verifying root
                    if let Cmd::Sign { ignore, .. } = c {
                        if this_cross {
                            cross_sig_since_change = true;
                        }
                        if !*ignore && !this_cross && !cross_sig_since_change {
                            out.h("plain-sign-succeeded");
                            match own_valid_signers(&doc) {
                                Ok((good, t)) => {
                                    if good < t {
                                        out.viol("signed-but-unverifiable", format!("sign exited 0 but only {good} distinct root keys validly signed, threshold {t}"));
                                    }
                                    notes.push(format!("{good} valid distinct root-key signatures, threshold {t}"));
                                }
                                Err(e) => out.viol("signed-but-unverifiable", e),
                            }
                            if let Ok(sr) = serde_json::from_slice::<Signed<Root>>(bytes) {
                                if sr.signed.verify_role(&sr).is_err() {
                                    out.viol("signed-but-unverifiable:library", "Root::verify_role refuses the file tuftool just signed".to_string());
                                }
                            }
                        } else if !*ignore {
                            out.h("sign-with-cross-signature-present(exempt)");
                        }
                    }
                }
            }
        }
        if log.len() < 14 {
            log.push(obj! {"cmd" => format!("{c:?}"), "exit_ok" => ok, "notes" => J::A(notes.into_iter().map(J::S).collect())});
        }
    }
    out.fingerprint = Some(format!("{seq:?}"));
    out.nontrivial = kinds.windows(2).any(|p| (p[0].starts_with("sign") && !p[1].starts_with("sign")) || (!p[0].starts_with("sign") && p[1].starts_with("sign")));
    out.desc = Some(obj! {"invocations" => J::A(log)});
    w.cleanup(&dir);
    out
}

pub fn run(cfg: &Cfg) -> i32 {
    let start = Instant::now();
    if let Err(e) = build_tuftool() {
        println!("BROKEN-HARNESS: {e}");
        return 2;
    }
    let _ = pool();
    // 96 structured sequences first, then seeded random ones
    let n = cfg.tier.pick(TEMPLATES + 220u64, TEMPLATES + 2_500);
    let budget = cfg.tier.pick(Duration::from_secs(600), Duration::from_secs(3000));
    let ev = par_run(cfg, n, budget, |w, i| Some(run_case(w, i)));
    let mut required: Vec<String> = Vec::new();
    for c in ["init", "add-key", "remove-key", "set-threshold", "set-version", "bump-version", "expire", "sign"] {
        required.push(format!("cmd={c}:exit0"));
    }
    required.push("cmd=sign:failed".into());
    required.push("cmd=sign --ignore-threshold:exit0".into());
    required.push("cmd=sign --cross-sign:exit0".into());
    required.push("plain-sign-succeeded".into());
    required.push("content-changed".into());
    required.push("write-fault:command-failed".into());
    finish(
        cfg,
        ev,
        Finish {
            level: "exploration",
            rule: "seeded sequences of 3..12 invocations of the tuftool binary built from /repo over `root init / add-key (1..3 key files: RSA PEM, Ed25519 and ECDSA PKCS#8) / remove-key (with/without role) / set-threshold 1..3 / set-version up to 2^32 / bump-version / expire / sign (key subsets, --ignore-threshold, --cross-sign against a saved older copy)`; after every invocation the file is compared with its previous bytes: exit != 0 => unchanged; exit 0 => parses as a root, every key-table identifier equals the digest of its key (reference canonical form), signed content changed => no signature left, plain successful sign => the file verifies under its own root keys and threshold (independent aws-lc verification over the reference canonical form, and Root::verify_role). One evaluation = one invocation. Non-trivial = a sign follows an edit or an edit follows a sign.",
            assumptions: vec!["sequences containing --cross-sign are exempt from the self-verification clause from that point until the next content change".into()],
            required_hist: required,
            min_evaluations: 1500,
        },
        start.elapsed(),
    )
}
