//! C11 — canonical JSON output is the OLPC canonical form of the value, and only of it.

use crate::json::{normalise, parse_canon, refcanon, render, CanonErr, Style, J};
use crate::obj;
use crate::rng::Rng;
use crate::run::*;
use serde::ser::{SerializeMap, SerializeSeq};
use serde::Serialize;
use std::io::Write;
use std::process::{Command, Stdio};
use std::time::{Duration, Instant};

/// Serialises a `J` with members in their stored (insertion) order — serde_json's own map would sort.
///
/// The second field is the integer width policy, i.e. which Rust integer type a typed value would
/// have had: 0 = always 64 bits (what `serde_json::Value` does), 1 = the narrowest type the number fits
/// (u8/u16/u32, i8/i16/i32), 2 = 32 bits where the number fits. With policy 1 or 2, member names that
/// are small decimal numbers are written as integer map keys of that width, too.
struct Ordered<'a>(&'a J, u8);

fn ser_u<S: serde::Serializer>(s: S, u: u64, policy: u8) -> Result<S::Ok, S::Error> {
    match policy {
        1 if u <= u8::MAX as u64 => s.serialize_u8(u as u8),
        1 if u <= u16::MAX as u64 => s.serialize_u16(u as u16),
        1 | 2 if u <= u32::MAX as u64 => s.serialize_u32(u as u32),
        _ => s.serialize_u64(u),
    }
}

fn ser_i<S: serde::Serializer>(s: S, i: i64, policy: u8) -> Result<S::Ok, S::Error> {
    match policy {
        1 if i >= i8::MIN as i64 && i <= i8::MAX as i64 => s.serialize_i8(i as i8),
        1 if i >= i16::MIN as i64 && i <= i16::MAX as i64 => s.serialize_i16(i as i16),
        1 | 2 if i >= i32::MIN as i64 && i <= i32::MAX as i64 => s.serialize_i32(i as i32),
        _ => s.serialize_i64(i),
    }
}

/// A member name that is the shortest decimal spelling of a small number (what an integer map key gives).
fn as_int_key(k: &str) -> Option<u64> {
    let n: u64 = k.parse().ok()?;
    (n <= u32::MAX as u64 && n.to_string() == k).then_some(n)
}

struct IntKey(u64, u8);
impl Serialize for IntKey {
    fn serialize<S: serde::Serializer>(&self, s: S) -> Result<S::Ok, S::Error> {
        ser_u(s, self.0, self.1)
    }
}

impl Serialize for Ordered<'_> {
    fn serialize<S: serde::Serializer>(&self, s: S) -> Result<S::Ok, S::Error> {
        let p = self.1;
        match self.0 {
            J::Null => s.serialize_unit(),
            J::Bool(b) => s.serialize_bool(*b),
            J::U(u) => ser_u(s, *u, p),
            J::I(i) => ser_i(s, *i, p),
            J::F(f) => s.serialize_f64(*f),
            J::S(x) => s.serialize_str(x),
            J::A(a) => {
                let mut seq = s.serialize_seq(Some(a.len()))?;
                for v in a {
                    seq.serialize_element(&Ordered(v, p))?;
                }
                seq.end()
            }
            J::O(m) => {
                let mut map = s.serialize_map(Some(m.len()))?;
                for (k, v) in m {
                    match as_int_key(k) {
                        Some(n) if p > 0 => map.serialize_entry(&IntKey(n, p), &Ordered(v, p))?,
                        _ => map.serialize_entry(k, &Ordered(v, p))?,
                    }
                }
                map.end()
            }
        }
    }
}

fn sut_canon(j: &J) -> Result<Vec<u8>, String> {
    sut_canon_w(j, 0)
}

fn sut_canon_w(j: &J, width_policy: u8) -> Result<Vec<u8>, String> {
    let mut data = Vec::new();
    let mut ser = serde_json::Serializer::with_formatter(&mut data, olpc_cjson::CanonicalFormatter::new());
    Ordered(j, width_policy).serialize(&mut ser).map_err(|e| e.to_string())?;
    Ok(data)
}

fn has_narrow_int(j: &J) -> bool {
    match j {
        J::U(u) => *u <= u32::MAX as u64,
        J::I(i) => *i >= i32::MIN as i64 && *i <= i32::MAX as i64,
        J::A(a) => a.iter().any(has_narrow_int),
        J::O(m) => m.iter().any(|(k, v)| as_int_key(k).is_some() || has_narrow_int(v)),
        _ => false,
    }
}

const SYMS: [&str; 8] = ["a", "b", " ", "!", "\"", "\\", "\u{e9}", "e\u{301}"];

fn all_keys() -> Vec<String> {
    let mut v: Vec<String> = SYMS.iter().map(|s| s.to_string()).collect();
    for a in SYMS {
        for b in SYMS {
            v.push(format!("{a}{b}"));
        }
    }
    v
}

fn permutations(n: usize) -> Vec<Vec<usize>> {
    match n {
        1 => vec![vec![0]],
        2 => vec![vec![0, 1], vec![1, 0]],
        _ => vec![
            vec![0, 1, 2],
            vec![0, 2, 1],
            vec![1, 0, 2],
            vec![1, 2, 0],
            vec![2, 0, 1],
            vec![2, 1, 0],
        ],
    }
}

fn classify_keys(keys: &[&String]) -> String {
    let mut prefix = false;
    for a in keys {
        for b in keys {
            if a != b && b.starts_with(a.as_str()) {
                prefix = true;
            }
        }
    }
    let esc = keys.iter().any(|k| k.contains('"') || k.contains('\\'));
    let nonascii = keys.iter().any(|k| !k.is_ascii());
    let low = keys.iter().any(|k| k.contains(' ') || k.contains('!'));
    let mut s = Vec::new();
    if prefix {
        s.push("prefix-pair");
    }
    if esc {
        s.push("escaped-char");
    }
    if low {
        s.push("char-below-quote");
    }
    if nonascii {
        s.push("non-ascii");
    }
    if s.is_empty() {
        s.push("plain");
    }
    s.join("+")
}

/// Judge one value: compares SUT output with the reference, checks injectivity through the
/// canonical-bytes parser. Returns (signature, detail) pairs.
fn judge(j: &J, class: &str, out: &mut CaseOut) -> Option<Vec<u8>> {
    out.evals += 1;
    let expect = refcanon(j);
    let got = sut_canon(j);
    match (&expect, &got) {
        (Err(CanonErr::Float), Ok(b)) => {
            out.viol(
                "float-emitted",
                format!("value with a float serialised to {:?}", String::from_utf8_lossy(b)),
            );
            None
        }
        (Err(CanonErr::Float), Err(_)) => None,
        (Err(e), _) => {
            out.broken = Some(format!("reference cannot canonicalise generated value: {e:?}"));
            None
        }
        (Ok(_), Err(e)) => {
            out.viol(format!("valid-value-refused:{class}"), format!("formatter failed on a float-free value: {e}"));
            None
        }
        (Ok(exp), Ok(got)) => {
            if exp != got {
                let kind = if exp.len() == got.len() {
                    let mut a = exp.clone();
                    let mut b = got.clone();
                    a.sort_unstable();
                    b.sort_unstable();
                    if a == b {
                        "order"
                    } else {
                        "bytes-differ"
                    }
                } else {
                    "bytes-differ"
                };
                out.viol(
                    format!("{kind}:{class}"),
                    format!(
                        "formatter: {:?}  reference: {:?}",
                        String::from_utf8_lossy(got),
                        String::from_utf8_lossy(exp)
                    ),
                );
            }
            // the same value written through narrower Rust integer types (typed structs do that) must
            // give the same bytes
            // (the exhaustive key-set enumeration does this for every fourth value, the random leg always)
            let keyset_shape = matches!(j, J::O(m) if m.len() <= 3 && m.iter().all(|(_, v)| matches!(v, J::U(u) if *u <= 3)));
            if has_narrow_int(j) && (!keyset_shape || out.evals % 4 == 0) {
                for policy in [1u8, 2] {
                    out.evals += 1;
                    match sut_canon_w(j, policy) {
                        Ok(b) if &b == exp => {}
                        Ok(b) => out.viol(
                            format!("narrow-integer-types-differ:{class}"),
                            format!("integers written as u8/u16/u32/i8/i16/i32 (policy {policy}): {:?}  reference: {:?}", String::from_utf8_lossy(&b), String::from_utf8_lossy(exp)),
                        ),
                        Err(e) => out.viol(format!("narrow-integer-types-refused:{class}"), e),
                    }
                }
                out.h("narrow-integer-types");
            }
            // injectivity: the produced bytes must parse back to the normalised input
            match (parse_canon(got), normalise(j)) {
                (Ok(back), Ok(norm)) => {
                    if back != norm {
                        out.viol(
                            format!("not-injective:{class}"),
                            format!("output {:?} parses to a different value", String::from_utf8_lossy(got)),
                        );
                    }
                }
                (Err(e), _) => {
                    // unsorted keys etc. are already reported as order/bytes-differ above
                    if exp == got {
                        out.broken = Some(format!("canonical parser rejects reference-equal bytes: {e}"));
                    }
                }
                (_, Err(e)) => out.broken = Some(format!("normalise failed: {e}")),
            }
            Some(got.clone())
        }
    }
}

#[derive(Clone, Debug)]
enum Case {
    /// all key sets containing keys[first] as smallest index, of size <= 3
    KeySets { first: usize },
    Random { i: u64 },
    Binary { i: u64 },
}

fn run_keysets(first: usize, out: &mut CaseOut) {
    let keys = all_keys();
    let n = keys.len();
    let mut sets: Vec<Vec<usize>> = vec![vec![first]];
    for b in (first + 1)..n {
        sets.push(vec![first, b]);
        for c in (b + 1)..n {
            sets.push(vec![first, b, c]);
        }
    }
    let mut nsets = 0u64;
    let mut excluded = 0u64;
    for set in sets {
        let ks: Vec<&String> = set.iter().map(|i| &keys[*i]).collect();
        // keys must stay distinct after normalisation
        let mut norm: Vec<String> = ks.iter().map(|k| crate::json::nfc_lite(k).unwrap()).collect();
        norm.sort();
        norm.dedup();
        if norm.len() != ks.len() {
            excluded += 1;
            continue;
        }
        nsets += 1;
        let class = classify_keys(&ks);
        let mut outputs: Vec<Vec<u8>> = Vec::new();
        for perm in permutations(ks.len()) {
            let members: Vec<(String, J)> = perm.iter().map(|p| (ks[*p].clone(), J::U(*p as u64 + 1))).collect();
            if let Some(b) = judge(&J::O(members), &class, out) {
                outputs.push(b);
            }
        }
        if outputs.windows(2).any(|w| w[0] != w[1]) {
            out.viol(
                format!("insertion-order-dependent:{class}"),
                format!("keys {ks:?} serialise differently under different insertion orders"),
            );
        }
        out.h(format!("keyset-class={class}"));
    }
    out.h("kind=exhaustive-keysets");
    out.fingerprint = Some(format!("keysets|{first}"));
    out.nontrivial = true;
    out.desc = Some(obj! {"kind" => "all key sets of size <=3 whose smallest key is", "key" => keys[first].as_str(),
        "sets" => nsets, "excluded_colliding_after_normalisation" => excluded, "serialisations" => out.evals});
}

fn atoms() -> Vec<String> {
    let mut v: Vec<String> = (0u8..0x80).map(|b| (b as char).to_string()).collect();
    for s in ["\u{e9}", "\u{e5}", "\u{f6}", "\u{df}", "e\u{301}", "A\u{30a}", "o\u{308}", "\u{1100}\u{1161}", "\u{1f37a}", "\u{4e2d}\u{6587}", "\u{fb01}", "\u{b2}", "\u{ff11}", "\u{2122}", "\u{2160}"] {
        v.push(s.to_string());
    }
    v
}

fn rand_string(r: &mut Rng, at: &[String]) -> String {
    let n = r.usize(7);
    let mut s = String::new();
    for _ in 0..n {
        // bias towards the characters that matter for ordering and escaping
        if r.chance(1, 3) {
            s.push_str(["\"", "\\", " ", "!", "a", "/", "\u{7f}", "\u{0}", "\u{1f}", "\n"][r.usize(10)]);
        } else {
            s.push_str(&at[r.usize(at.len())]);
        }
    }
    s
}

fn rand_value(r: &mut Rng, at: &[String], depth: usize, allow_float: bool, has_float: &mut bool) -> J {
    let pick = if depth >= 4 { r.usize(5) } else { r.usize(8) };
    match pick {
        0 => J::Null,
        1 => J::Bool(r.bool()),
        2 => match r.usize(8) {
            0 => J::U(u64::MAX),
            1 => J::I(i64::MIN),
            2 => J::U(0),
            3 => J::I(-1),
            4 => J::U(i64::MAX as u64),
            5 => J::U(i64::MAX as u64 + 1),
            _ => J::U(r.next() >> r.usize(64)),
        },
        3 => J::S(rand_string(r, at)),
        4 => {
            if allow_float && r.chance(1, 3) {
                *has_float = true;
                J::F(*r.pick(&[1.5f64, 1e3, 0.0, -0.0, 1e300, 2.0, -7.25]))
            } else {
                J::S(rand_string(r, at))
            }
        }
        5 => {
            let n = r.usize(4);
            J::A((0..n).map(|_| rand_value(r, at, depth + 1, allow_float, has_float)).collect())
        }
        _ => {
            let n = r.usize(5);
            let mut m: Vec<(String, J)> = Vec::new();
            let mut seen: Vec<String> = Vec::new();
            for _ in 0..n {
                let k = rand_string(r, at);
                let nk = crate::json::nfc_lite(&k).unwrap();
                if seen.contains(&nk) {
                    continue;
                }
                seen.push(nk);
                m.push((k, rand_value(r, at, depth + 1, allow_float, has_float)));
            }
            J::O(m)
        }
    }
}

fn value_class(j: &J) -> String {
    fn keys(j: &J, out: &mut Vec<String>) {
        match j {
            J::O(m) => {
                for (k, v) in m {
                    out.push(k.clone());
                    keys(v, out);
                }
            }
            J::A(a) => a.iter().for_each(|v| keys(v, out)),
            _ => {}
        }
    }
    let mut ks = Vec::new();
    keys(j, &mut ks);
    let refs: Vec<&String> = ks.iter().collect();
    let esc = refs.iter().any(|k| k.contains('"') || k.contains('\\'));
    let low = refs.iter().any(|k| k.chars().any(|c| (c as u32) < 0x22));
    format!(
        "random:{}{}",
        if esc { "escaped-char-in-key" } else { "no-escape-in-key" },
        if low { "+char-below-quote-in-key" } else { "" }
    )
}

fn run_random(seed: u64, i: u64, out: &mut CaseOut) {
    let mut r = Rng::for_case(seed, "C11", i);
    let at = atoms();
    let mut has_float = false;
    let allow_float = r.chance(1, 6);
    let v = rand_value(&mut r, &at, 0, allow_float, &mut has_float);
    let class = value_class(&v);
    let a = judge(&v, &class, out);
    // the same value with shuffled insertion order must give the same bytes
    let mut sh = v.clone();
    crate::json::shuffle_members(&mut sh, &mut r);
    let b = judge(&sh, &class, out);
    if let (Some(a), Some(b)) = (&a, &b) {
        if a != b {
            out.viol(format!("insertion-order-dependent:{class}"), "shuffled members give different bytes".to_string());
        }
    }
    if has_float {
        out.h("value-with-float");
        if a.is_some() {
            // judge() reports float-emitted when the reference says Float; reaching here means the
            // reference accepted, which cannot be
        }
    }
    out.h("kind=random-depth<=4");
    out.h(format!("class={class}"));
    out.fingerprint = Some(String::from_utf8_lossy(&render(&v, Style::Compact)).to_string());
    out.nontrivial = class.contains("escaped-char-in-key") || class.contains("below-quote") || has_float || render(&v, Style::Compact).iter().any(|b| *b >= 0x80);
    out.desc = Some(obj! {"kind" => "random value", "value_as_json" => String::from_utf8_lossy(&render(&v, Style::Compact)).to_string(), "class" => class.as_str(),
        "formatter_output" => a.map_or("(refused)".to_string(), |b| String::from_utf8_lossy(&b).to_string())});
}

fn cjson_bin() -> &'static str {
    "/verif/.cache/target-repo/release/olpc-cjson"
}

fn run_binary(seed: u64, i: u64, out: &mut CaseOut) {
    let mut r = Rng::for_case(seed, "C11-bin", i);
    let at = atoms();
    let mut hf = false;
    let allow_float = r.chance(1, 8);
    let v = rand_value(&mut r, &at, 0, allow_float, &mut hf);
    // the binary reads ordinary JSON: \u0000 cannot be represented in a way serde_json rejects? it can (\u0000 is valid JSON)
    let input = render(&v, Style::Pretty);
    let child = Command::new(cjson_bin()).stdin(Stdio::piped()).stdout(Stdio::piped()).stderr(Stdio::null()).spawn();
    let Ok(mut child) = child else {
        out.broken = Some("cannot start the olpc-cjson binary".into());
        return;
    };
    child.stdin.take().unwrap().write_all(&input).unwrap();
    let res = child.wait_with_output().unwrap();
    out.evals += 1;
    let class = format!("binary:{}", value_class(&v));
    match refcanon(&v) {
        Err(CanonErr::Float) => {
            if res.status.success() {
                out.viol("float-emitted:binary", format!("binary accepted a float: {:?}", String::from_utf8_lossy(&res.stdout)));
            }
            out.h("binary:float-input");
        }
        Err(e) => out.broken = Some(format!("reference failed: {e:?}")),
        Ok(exp) => {
            if !res.status.success() {
                out.viol(format!("valid-value-refused:{class}"), "binary exited with an error on a float-free document".to_string());
            } else if res.stdout != exp {
                out.viol(
                    format!("bytes-differ:{class}"),
                    format!("binary: {:?} reference: {:?}", String::from_utf8_lossy(&res.stdout), String::from_utf8_lossy(&exp)),
                );
            }
        }
    }
    out.h("kind=olpc-cjson-binary");
    out.fingerprint = Some(format!("bin|{}", String::from_utf8_lossy(&input)));
    out.nontrivial = true;
    out.desc = Some(obj! {"kind" => "document piped through the olpc-cjson binary", "input" => String::from_utf8_lossy(&render(&v, Style::Compact)).to_string(),
        "exit_ok" => res.status.success(), "stdout" => String::from_utf8_lossy(&res.stdout).to_string()});
}

fn build_binary() -> Result<(), String> {
    let st = Command::new("cargo")
        .args(["build", "--offline", "--release", "-p", "olpc-cjson", "--bin", "olpc-cjson"])
        .current_dir("/repo")
        .env("CARGO_NET_OFFLINE", "true")
        .env("CARGO_TARGET_DIR", "/verif/.cache/target-repo")
        .stdout(Stdio::null())
        .stderr(Stdio::null())
        .status()
        .map_err(|e| e.to_string())?;
    if st.success() {
        Ok(())
    } else {
        Err("cargo build of olpc-cjson failed".into())
    }
}

/// Supplementary sanitizer leg: the same formatter under Miri (UB, leaks, invalid UTF-8), sharded over
/// processes. Returns (serialisations run under Miri, violations, inconclusive notes).
fn miri_leg(tier: Tier) -> (u64, Vec<(String, String)>, Vec<String>) {
    let (shards, budget, limit) = tier.pick((6usize, 250usize, Duration::from_secs(420)), (16, 1200, Duration::from_secs(2400)));
    let mut children = Vec::new();
    for s in 0..shards {
        let c = Command::new("cargo")
            .args(["+nightly", "miri", "run", "--offline", "--manifest-path", "/verif/harness/miri-cjson/Cargo.toml", "--", &budget.to_string(), &(s * 11).to_string()])
            .env("CARGO_NET_OFFLINE", "true")
            .env("CARGO_TARGET_DIR", "/verif/.cache/target-miri")
            .stdin(Stdio::null())
            .stdout(Stdio::piped())
            .stderr(Stdio::piped())
            .spawn();
        match c {
            Ok(c) => children.push(c),
            Err(e) => return (0, vec![], vec![format!("cargo miri could not be started: {e}")]),
        }
        // the first shard builds; give it a head start so that the others find the build done
        if s == 0 {
            std::thread::sleep(Duration::from_secs(6));
        }
    }
    let t0 = Instant::now();
    let mut total = 0u64;
    let mut viols = Vec::new();
    let mut inconc = Vec::new();
    for mut c in children {
        // generous wall-clock watchdog: its firing is inconclusive, never a violation
        loop {
            match c.try_wait() {
                Ok(Some(_)) => break,
                Ok(None) if t0.elapsed() > limit => {
                    let _ = c.kill();
                    inconc.push("miri shard exceeded its wall-clock budget".to_string());
                    break;
                }
                Ok(None) => std::thread::sleep(Duration::from_millis(200)),
                Err(_) => break,
            }
        }
        let Ok(o) = c.wait_with_output() else { continue };
        let so = String::from_utf8_lossy(&o.stdout).to_string();
        let se = String::from_utf8_lossy(&o.stderr).to_string();
        if let Some(l) = so.lines().find(|l| l.starts_with("MIRI-WORKLOAD-DONE")) {
            if let Some(n) = l.split("serialisations=").nth(1).and_then(|x| x.split(' ').next()).and_then(|x| x.parse::<u64>().ok()) {
                total += n;
            }
        } else if !inconc.iter().any(|x| x.contains("budget")) {
            if se.contains("Undefined Behavior") {
                let first = se.lines().find(|l| l.contains("Undefined Behavior")).unwrap_or("").to_string();
                viols.push(("miri:undefined-behaviour".to_string(), first));
            } else if se.contains("memory leaked") {
                viols.push(("miri:leak".to_string(), se.lines().find(|l| l.contains("leaked")).unwrap_or("").to_string()));
            } else {
                inconc.push(format!("miri shard ended without result: {}", se.lines().rev().take(3).collect::<Vec<_>>().join(" | ")));
            }
        }
        for l in so.lines().filter(|l| l.starts_with("MISMATCH") || l.starts_with("NOT-INJECTIVE") || l.starts_with("FLOAT-EMITTED") || l.starts_with("REFUSED")).take(3) {
            viols.push((format!("miri-leg:{}", l.split(' ').next().unwrap_or("").to_lowercase()), l.to_string()));
        }
    }
    (total, viols, inconc)
}

pub fn run(cfg: &Cfg) -> i32 {
    let start = Instant::now();
    if let Err(e) = build_binary() {
        println!("BROKEN-HARNESS: {e}");
        return 2;
    }
    let nkeys = all_keys().len();
    let mut cases: Vec<Case> = (0..nkeys).map(|first| Case::KeySets { first }).collect();
    let nrand = cfg.tier.pick(50_000u64, 2_000_000);
    // group random values: 100 per case to keep bookkeeping cheap
    for i in 0..nrand {
        cases.push(Case::Random { i });
    }
    let nbin = cfg.tier.pick(400u64, 6_000);
    for i in 0..nbin {
        cases.push(Case::Binary { i });
    }
    let budget = cfg.tier.pick(Duration::from_secs(300), Duration::from_secs(1800));
    let tier = cfg.tier;
    let miri = if cfg.replay.is_none() { Some(std::thread::spawn(move || miri_leg(tier))) } else { None };
    let mut ev = par_run(cfg, cases.len() as u64, budget, |w, i| {
        let mut out = CaseOut::default();
        match cases.get(i as usize)? {
            Case::KeySets { first } => run_keysets(*first, &mut out),
            Case::Random { i } => run_random(w.cfg.seed, *i, &mut out),
            Case::Binary { i } => run_binary(w.cfg.seed, *i, &mut out),
        }
        Some(out)
    });
    ev.exhaustive = false;
    ev.extra.push(("keyset_space_exhaustive(size<=3, 8 symbols, key length<=2, all insertion orders)".into(), J::Bool(true)));
    if let Some(h) = miri {
        let (n, viols, inconc) = h.join().unwrap_or((0, vec![], vec!["miri thread panicked".into()]));
        ev.extra.push(("serialisations_under_miri".into(), J::U(n)));
        ev.evaluations += n;
        if n > 0 {
            *ev.hist.entry("kind=miri-leg".into()).or_insert(0) += n;
        }
        for (sig, detail) in viols {
            ev.viols.push((u64::MAX, Viol { signature: sig, detail }, Some(obj! {"kind" => "miri leg (cargo +nightly miri run on harness/miri-cjson)"})));
        }
        for i in inconc {
            *ev.inconclusive.entry(i).or_insert(0) += 1;
        }
    }
    let required = vec![
        "kind=exhaustive-keysets".into(),
        "kind=random-depth<=4".into(),
        "kind=olpc-cjson-binary".into(),
        "value-with-float".into(),
        "binary:float-input".into(),
        "keyset-class=prefix-pair+escaped-char+char-below-quote+non-ascii".into(),
        "keyset-class=plain".into(),
    ];
    finish(
        cfg,
        ev,
        Finish {
            level: "exploration",
            rule: "CanonicalFormatter driven through serde_json::Serializer with an insertion-ordered container: exhaustively every key set of size <=3 over the alphabet {a,b,space,!,\",\\,é,e+U+0301} with keys of length <=2 (sets colliding after normalisation excluded) under every permutation of insertion order; seeded random values up to depth 4 over all ASCII incl. control characters, multi-byte and combining atoms with known normal forms, integers at the i64/u64 extremes, floats at random positions (must be refused), each also with shuffled member order; documents piped through the olpc-cjson binary built from /repo. Oracle: independent reference canonicaliser written from the OLPC text + strict parser of canonical bytes (injectivity). One evaluation = one serialisation judged. Non-trivial = keys needing a sorting decision (prefix pair, escaped char, char below the quote, non-ASCII) or a float.",
            assumptions: vec![
                "NFC is known by construction only for the harness' atom alphabet (hard-coded pairs); other Unicode is out of reach".into(),
                "object keys stay distinct after normalisation (as the quantifier says)".into(),
            ],
            required_hist: required,
            min_evaluations: 100_000,
        },
        start.elapsed(),
    )
}
