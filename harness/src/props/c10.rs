//! C10 — whatever the repository editor signs and writes, the client loads back unchanged.

use crate::client;
use crate::forge::*;
use crate::json::{refcanon, render, sha256_hex, Style, J};
use crate::keys::{cached_sign, key};
use crate::obj;
use crate::props::c19::{load_dir, read_all};
use crate::rng::Rng;
use crate::run::*;
use crate::specgen::*;
use chrono::{DateTime, TimeZone, Utc};
use std::collections::BTreeMap;
use std::num::NonZeroU64;
use std::path::{Path, PathBuf};
use std::time::{Duration, Instant};
use tough::editor::signed::PathExists;
use tough::editor::targets::TargetsEditor;
use tough::editor::RepositoryEditor;
use tough::key_source::KeySource;
use tough::schema::{PathPattern, PathSet, Target};
use tough::TargetName;

fn nz(v: u64) -> NonZeroU64 {
    NonZeroU64::new(v).unwrap()
}

fn far() -> DateTime<Utc> {
    Utc.with_ymd_and_hms(2100, 1, 1, 0, 0, 0).unwrap()
}

fn sources(keys: &[usize]) -> Vec<Box<dyn KeySource>> {
    keys.iter().map(|k| key(*k).source()).collect()
}

fn mk_target(t: &TargetSpec) -> Target {
    serde_json::from_slice(&render(&target_entry(&t.content, t.custom.as_ref()), Style::Compact)).expect("target entry parses")
}

fn pathset(p: &Paths) -> PathSet {
    match p {
        Paths::Patterns(v) => PathSet::Paths(v.iter().map(|s| PathPattern::new(s.clone()).unwrap()).collect()),
        Paths::HashPrefixes(v) => PathSet::PathHashPrefixes(v.iter().map(|s| tough::schema::PathHashPrefix::new(s.clone()).unwrap()).collect()),
    }
}

struct Prog {
    log: Vec<String>,
    refused: Option<String>,
    revisits: u32,
    refused_attempts: u32,
}

impl Prog {
    fn op(&mut self, s: impl Into<String>) {
        if self.log.len() < 60 {
            self.log.push(s.into());
        }
    }
}

/// Fill one delegated role (and, recursively, its delegates) through the modal editor API.
#[async_recursion::async_recursion(?Send)]
async fn fill_role(ed: &mut RepositoryEditor, d: &DelegSpec, r: &mut Rng, p: &mut Prog, skip_resign_undersigned: bool) -> Result<(), String> {
    let unmeetable = d.threshold as usize > d.keys.len();
    if unmeetable && skip_resign_undersigned {
        // the role stays as `delegate_role` created it (signed by all of its too few keys)
        p.op(format!("(role {:?} left as created: threshold {} with {} key(s))", d.name, d.threshold, d.keys.len()));
        return Ok(());
    }
    ed.change_delegated_targets(&d.name).map_err(|e| format!("change_delegated_targets({:?}): {}", d.name, client::full_error(&e)))?;
    p.op(format!("change_delegated_targets({:?})", d.name));
    ed.targets_version(nz(d.version)).map_err(|e| e.to_string())?;
    ed.targets_expires(far()).map_err(|e| e.to_string())?;
    // detour: a target that is added and removed again
    if r.chance(1, 3) {
        let decoy = TargetSpec::new("zz-decoy.bin", b"decoy");
        let dn = match &d.paths {
            Paths::Patterns(v) => v[0].replace('*', "zz-decoy.bin"),
            _ => "zz-decoy.bin".to_string(),
        };
        ed.add_target(dn.as_str(), mk_target(&decoy)).map_err(|e| client::full_error(&e))?;
        ed.remove_target(&TargetName::new(dn.clone()).unwrap()).map_err(|e| client::full_error(&e))?;
        p.op(format!("add_target({dn:?}); remove_target({dn:?})"));
    }
    // detour over two visits: a target that is signed into the role first, and on a second visit
    // replaced (added again with other content) and then removed - it must be gone in the end
    let victim = r.chance(1, 3).then(|| match &d.paths {
        Paths::Patterns(v) => v[0].replace('*', "zz-victim.bin"),
        _ => "zz-victim.bin".to_string(),
    });
    if let Some(vn) = &victim {
        ed.add_target(vn.as_str(), mk_target(&TargetSpec::new("zz-victim.bin", b"first content"))).map_err(|e| client::full_error(&e))?;
    }
    for t in &d.targets {
        ed.add_target(t.name.as_str(), mk_target(t)).map_err(|e| format!("add_target({:?}): {}", t.name, client::full_error(&e)))?;
    }
    p.op(format!("add_target x{} in {:?}", d.targets.len(), d.name));
    for c in &d.children {
        // created at version 1; the role's own editing session sets the version of the model (unless
        // the role is going to be left exactly as created)
        let as_created = c.threshold as usize > c.keys.len() && skip_resign_undersigned;
        ed.delegate_role(&c.name, &sources(&c.keys), pathset(&c.paths), nz(c.threshold), far(), nz(if as_created { c.version } else { 1 }))
            .await
            .map_err(|e| format!("delegate_role({:?}): {}", c.name, client::full_error(&e)))?;
        p.op(format!("delegate_role({:?}, keys {:?}, threshold {}) in {:?}", c.name, c.keys, c.threshold, d.name));
    }
    let signers = d.signers.clone().unwrap_or_else(|| d.keys.clone());
    // detour: a first signing attempt with a key that is not authorised for the role; the editor
    // refuses, and the pending edits must still be there for the real attempt
    if r.chance(1, 3) {
        let foreign = (0..20usize).rev().find(|k| !d.keys.contains(k)).unwrap();
        match ed.sign_targets_editor(&sources(&[foreign])).await {
            Err(_) => {
                p.op(format!("sign_targets_editor({:?}, foreign key {foreign}) -> refused", d.name));
                p.refused_attempts += 1;
            }
            Ok(_) => p.op(format!("sign_targets_editor({:?}, foreign key {foreign}) -> accepted (!)", d.name)),
        }
    }
    ed.sign_targets_editor(&sources(&signers))
        .await
        .map_err(|e| format!("sign_targets_editor({:?} with keys {:?}): {}", d.name, signers, client::full_error(&e)))?;
    p.op(format!("sign_targets_editor({:?}, keys {:?})", d.name, signers));
    if let Some(vn) = &victim {
        ed.change_delegated_targets(&d.name).map_err(|e| format!("second change_delegated_targets({:?}): {}", d.name, client::full_error(&e)))?;
        ed.targets_version(nz(d.version)).map_err(|e| e.to_string())?;
        ed.targets_expires(far()).map_err(|e| e.to_string())?;
        ed.add_target(vn.as_str(), mk_target(&TargetSpec::new("zz-victim.bin", b"second, longer content"))).map_err(|e| client::full_error(&e))?;
        ed.remove_target(&TargetName::new(vn.clone()).unwrap()).map_err(|e| client::full_error(&e))?;
        ed.sign_targets_editor(&sources(&signers))
            .await
            .map_err(|e| format!("second sign_targets_editor({:?}): {}", d.name, client::full_error(&e)))?;
        p.op(format!("second visit of {:?}: add_target({vn:?}) [replaces the signed entry]; remove_target({vn:?}); sign_targets_editor", d.name));
        p.revisits += 1;
    }
    for c in &d.children {
        fill_role(ed, c, r, p, skip_resign_undersigned).await?;
    }
    Ok(())
}

#[derive(Clone, Copy, Debug, PartialEq, Eq)]
enum Publish {
    Copy,
    Link,
}

struct Written {
    md: PathBuf,
    tg: PathBuf,
    root_bytes: Vec<u8>,
    root_path: PathBuf,
}

#[allow(clippy::too_many_arguments)]
async fn run_program(spec: &RepoSpec, dir: &Path, r: &mut Rng, p: &mut Prog, publish: Publish, final_keys: &[usize], skip_resign_undersigned: bool) -> Result<Written, String> {
    let root_bytes = render(&sign_with(&root_signed(1, spec.consistent, FAR, &spec.keys), &spec.keys.root.keys), Style::Pretty);
    let root_path = dir.join("root.json");
    std::fs::write(&root_path, &root_bytes).unwrap();
    let mut ed = RepositoryEditor::new(&root_path).await.map_err(|e| client::full_error(&e))?;
    p.op("RepositoryEditor::new");
    // detours at the top level
    if r.chance(1, 4) {
        for t in spec.targets.iter().take(2) {
            ed.add_target(t.name.as_str(), mk_target(&TargetSpec::new(&t.name, b"stale content that is replaced later"))).map_err(|e| client::full_error(&e))?;
        }
        ed.add_target("zz-cleared.bin", mk_target(&TargetSpec::new("zz-cleared.bin", b"x"))).map_err(|e| client::full_error(&e))?;
        ed.clear_targets().map_err(|e| client::full_error(&e))?;
        p.op("add_target x3; clear_targets");
    }
    ed.targets_version(nz(99)).map_err(|e| e.to_string())?;
    for t in &spec.targets {
        ed.add_target(t.name.as_str(), mk_target(t)).map_err(|e| format!("add_target({:?}): {}", t.name, client::full_error(&e)))?;
    }
    p.op(format!("add_target x{} (top level)", spec.targets.len()));
    ed.targets_version(nz(spec.tg_version)).map_err(|e| e.to_string())?;
    ed.targets_expires(far()).map_err(|e| e.to_string())?;
    for d in &spec.delegations {
        let as_created = d.threshold as usize > d.keys.len() && skip_resign_undersigned;
        ed.delegate_role(&d.name, &sources(&d.keys), pathset(&d.paths), nz(d.threshold), far(), nz(if as_created { d.version } else { 1 }))
            .await
            .map_err(|e| format!("delegate_role({:?}): {}", d.name, client::full_error(&e)))?;
        p.op(format!("delegate_role({:?}, keys {:?}, threshold {})", d.name, d.keys, d.threshold));
    }
    if !spec.delegations.is_empty() {
        ed.sign_targets_editor(&sources(&spec.keys.targets.keys)).await.map_err(|e| format!("sign_targets_editor(targets): {}", client::full_error(&e)))?;
        p.op("sign_targets_editor(targets)");
        for d in &spec.delegations {
            fill_role(&mut ed, d, r, p, skip_resign_undersigned).await?;
        }
    }
    ed.snapshot_version(nz(spec.snap_version)).snapshot_expires(far()).timestamp_version(nz(spec.ts_version)).timestamp_expires(far());
    let signed = ed.sign(&sources(final_keys)).await.map_err(|e| format!("sign(keys {final_keys:?}): {}", client::full_error(&e)))?;
    p.op(format!("sign(keys {final_keys:?}) -> ok"));
    let md = dir.join("written/metadata");
    let tg = dir.join("written/targets");
    signed.write(&md).await.map_err(|e| format!("write: {}", client::full_error(&e)))?;
    p.op("write(metadata)");
    // publication
    std::fs::create_dir_all(&tg).unwrap();
    let indir = dir.join("input");
    for (k, t) in all_targets(spec).iter().enumerate() {
        let tn = TargetName::new(t.name.clone()).map_err(|e| e.to_string())?;
        let base = Path::new(tn.resolved()).file_name().map(|f| f.to_string_lossy().to_string()).unwrap_or_else(|| "f".into());
        let src = indir.join(format!("{k}")).join(base);
        std::fs::create_dir_all(src.parent().unwrap()).unwrap();
        std::fs::write(&src, &t.content).unwrap();
        let fname = if spec.consistent { format!("{}.{}", sha256_hex(&t.content), tn.resolved()) } else { tn.resolved().to_string() };
        if let Some(parent) = tg.join(&fname).parent() {
            std::fs::create_dir_all(parent).unwrap();
        }
        let res = match publish {
            Publish::Copy => signed.copy_target(&src, &tg, PathExists::Replace, Some(&tn)).await,
            Publish::Link => signed.link_target(&src, &tg, PathExists::Replace, Some(&tn)).await,
        };
        res.map_err(|e| format!("publish {:?}: {}", t.name, client::full_error(&e)))?;
    }
    p.op(format!("{:?} x{}", publish, all_targets(spec).len()));
    Ok(Written { md, tg, root_bytes, root_path })
}

fn role_view(t: &tough::schema::Targets) -> J {
    // typed accessors -> comparable JSON: version, targets (length, sha256, custom), delegations
    let mut targets: Vec<(String, J)> = t
        .targets
        .iter()
        .map(|(n, e)| {
            let mut m = vec![
                ("length".to_string(), J::U(e.length)),
                ("sha256".to_string(), J::S(hex::encode(&e.hashes.sha256))),
            ];
            if !e.custom.is_empty() {
                m.push(("custom".to_string(), J::from_serde(&serde_json::to_value(&e.custom).unwrap())));
            }
            (n.raw().to_string(), J::O(m))
        })
        .collect();
    targets.sort_by(|a, b| a.0.cmp(&b.0));
    let delegs: Vec<J> = t
        .delegations
        .as_ref()
        .map(|d| {
            d.roles
                .iter()
                .map(|r| {
                    let mut ids: Vec<String> = r.keyids.iter().map(|k| hex::encode(k)).collect();
                    ids.sort();
                    obj! {"name" => r.name.as_str(), "threshold" => r.threshold.get(), "keyids" => J::A(ids.into_iter().map(J::S).collect()),
                    "paths" => J::from_serde(&serde_json::to_value(&r.paths).unwrap()), "terminating" => r.terminating}
                })
                .collect()
        })
        .unwrap_or_default();
    obj! {"version" => t.version.get(), "expires" => crate::fmt_time(t.expires), "targets" => J::O(targets), "delegations" => J::A(delegs)}
}

fn model_view(version: u64, targets: &[TargetSpec], children: &[DelegSpec]) -> J {
    let mut ts: Vec<(String, J)> = targets
        .iter()
        .map(|t| {
            let mut m = vec![
                ("length".to_string(), J::U(t.content.len() as u64)),
                ("sha256".to_string(), J::S(sha256_hex(&t.content))),
            ];
            if let Some(c) = &t.custom {
                m.push(("custom".to_string(), c.clone()));
            }
            (t.name.clone(), J::O(m))
        })
        .collect();
    ts.sort_by(|a, b| a.0.cmp(&b.0));
    let delegs: Vec<J> = children
        .iter()
        .map(|c| {
            let mut ids: Vec<String> = c.keys.iter().map(|k| key(*k).id()).collect();
            ids.sort();
            let paths = match &c.paths {
                Paths::Patterns(v) => obj! {"paths" => J::A(v.iter().map(|s| J::S(s.clone())).collect())},
                Paths::HashPrefixes(v) => obj! {"path_hash_prefixes" => J::A(v.iter().map(|s| J::S(s.clone())).collect())},
            };
            obj! {"name" => c.name.as_str(), "threshold" => c.threshold, "keyids" => J::A(ids.into_iter().map(J::S).collect()), "paths" => paths, "terminating" => false}
        })
        .collect();
    obj! {"version" => version, "expires" => FAR, "targets" => J::O(ts), "delegations" => J::A(delegs)}
}

fn compare_views(role: &str, got: &J, want: &J, out: &mut CaseOut) {
    for k in ["version", "expires", "targets", "delegations"] {
        if refcanon(got.at(k)).ok() != refcanon(want.at(k)).ok() {
            out.viol(
                format!("loaded-differs-from-model:what={k}"),
                format!(
                    "role {role:?}: loaded {} model {}",
                    String::from_utf8_lossy(&render(got.at(k), Style::Compact)).chars().take(300).collect::<String>(),
                    String::from_utf8_lossy(&render(want.at(k), Style::Compact)).chars().take(300).collect::<String>()
                ),
            );
        }
    }
}

/// (d) written snapshot/timestamp entries must describe the written files exactly
fn check_written_meta(md: &Path, consistent: bool, out: &mut CaseOut) {
    let read_doc = |f: &Path| -> Option<(Vec<u8>, J)> {
        let b = std::fs::read(f).ok()?;
        let j = J::parse(&b).ok()?;
        Some((b, j))
    };
    let listing: Vec<String> = std::fs::read_dir(md).map(|rd| rd.flatten().map(|e| e.file_name().to_string_lossy().to_string()).collect()).unwrap_or_default();
    let find = |suffix: &str, version: u64| -> Option<PathBuf> {
        let name = if consistent && suffix != "timestamp.json" { format!("{version}.{suffix}") } else { suffix.to_string() };
        listing.contains(&name).then(|| md.join(name))
    };
    let Some((_, ts)) = read_doc(&md.join("timestamp.json")) else {
        out.viol("meta-mismatch:file=timestamp:what=missing", "timestamp.json not written".to_string());
        return;
    };
    let check_entry = |pin: &str, entry: &J, file: Option<PathBuf>, out: &mut CaseOut| {
        let Some(file) = file else {
            out.viol(format!("meta-mismatch:file={pin}:what=file-missing"), format!("entry {pin} names a file that was not written"));
            return;
        };
        let Some((bytes, doc)) = read_doc(&file) else {
            out.viol(format!("meta-mismatch:file={pin}:what=unreadable"), file.display().to_string());
            return;
        };
        if let Some(l) = entry.get("length").and_then(J::as_u64) {
            if l != bytes.len() as u64 {
                out.viol(format!("meta-mismatch:file={pin}:what=length"), format!("listed {l}, file has {} bytes", bytes.len()));
            }
        }
        if let Some(h) = entry.get("hashes").and_then(|h| h.get("sha256")).and_then(J::as_str) {
            if h.to_lowercase() != sha256_hex(&bytes) {
                out.viol(format!("meta-mismatch:file={pin}:what=sha256"), format!("listed {h}, file digests to {}", sha256_hex(&bytes)));
            }
        }
        if entry.at("version").as_u64() != doc.at("signed").at("version").as_u64() {
            out.viol(format!("meta-mismatch:file={pin}:what=version"), format!("listed {:?}, file says {:?}", entry.at("version"), doc.at("signed").at("version")));
        }
    };
    let se = ts.at("signed").at("meta").at("snapshot.json").clone();
    let sv = se.at("version").as_u64().unwrap_or(0);
    check_entry("snapshot", &se, find("snapshot.json", sv), out);
    if let Some(sf) = find("snapshot.json", sv) {
        if let Some((_, snap)) = read_doc(&sf) {
            for (fname, e) in snap.at("signed").at("meta").members() {
                let v = e.at("version").as_u64().unwrap_or(0);
                let on_disk = if fname == "targets.json" {
                    "targets.json".to_string()
                } else {
                    format!("{}.json", enc_name(fname.trim_end_matches(".json")))
                };
                check_entry(if fname == "targets.json" { "targets" } else { "delegated" }, e, find(&on_disk, v), out);
                out.h("written-meta-entry-checked");
            }
        }
    }
}

fn run_case(w: &mut Worker, i: u64) -> CaseOut {
    let mut out = CaseOut::default();
    let mut r = Rng::for_case(w.cfg.seed, "C10", i);
    let opts = GenOpts {
        odd_target_names: r.chance(1, 3),
        odd_role_names: r.chance(1, 3),
        extras: false,
        max_depth: r.usize(4),
        big_delegated: r.chance(1, 4),
    };
    let mut spec = gen_spec(&mut r, &opts);
    // the editor always writes non-terminating delegations
    fn clear_term(d: &mut DelegSpec) {
        d.terminating = false;
        d.children.iter_mut().for_each(clear_term);
    }
    spec.delegations.iter_mut().for_each(clear_term);
    // thresholds the key set cannot meet (the editor must not report success for something unloadable)
    let unmeetable = !spec.delegations.is_empty() && r.chance(1, 6);
    if unmeetable {
        let d = &mut spec.delegations[0];
        d.threshold = d.keys.len() as u64 + 1;
        d.signers = Some(d.keys.clone());
    }
    let skip_resign = unmeetable && r.bool();
    // an inadequate key set in disguise: one key source listed as often as the threshold demands
    let mut dup_signers = false;
    if !unmeetable && r.chance(1, 5) {
        fn first_multi(d: &mut DelegSpec) -> bool {
            if d.threshold >= 2 {
                d.signers = Some(vec![d.keys[0]; d.threshold as usize]);
                return true;
            }
            d.children.iter_mut().any(first_multi)
        }
        dup_signers = spec.delegations.iter_mut().any(first_multi);
    }
    let mut inadequate_final = r.chance(1, 12);
    // a two-key snapshot role with threshold 2, signed with both keys or with one key listed twice
    let snap2 = r.chance(1, 6);
    let snap_dup = snap2 && r.bool();
    if snap2 {
        spec.keys.snapshot = RoleKeys { keys: vec![2, 17], threshold: 2 };
        inadequate_final = false;
    }
    let publish = if r.bool() { Publish::Copy } else { Publish::Link };
    let dir = w.case_dir();
    let wd = client::watchdog(w.cfg.tier);
    let mut p = Prog { log: vec![], refused: None, revisits: 0, refused_attempts: 0 };
    let final_keys: Vec<usize> = if snap_dup {
        vec![0, 1, 2, 2, 3]
    } else if snap2 {
        vec![0, 1, 2, 17, 3]
    } else if inadequate_final {
        vec![0, 1, 3]
    } else {
        vec![0, 1, 2, 3]
    };
    let inadequate_final = inadequate_final || snap_dup;
    let res = w.rt.block_on(async { tokio::time::timeout(wd * 3, run_program(&spec, &dir, &mut r, &mut p, publish, &final_keys, skip_resign)).await });
    out.evals = 1;
    let nd = all_delegs(&spec).len();
    let mut notes: Vec<String> = Vec::new();
    match res {
        Err(_) => out.inconc("watchdog"),
        Ok(Err(e)) => {
            p.refused = Some(e.clone());
            // the editor refused something: nothing was reported as success, nothing to load
            if inadequate_final {
                out.h("editor-refused:inadequate-final-keys");
            } else if unmeetable {
                out.h("editor-refused:unmeetable-threshold");
            } else if dup_signers {
                out.h("editor-refused:one-key-listed-repeatedly");
            } else {
                out.h("editor-refused:other");
                out.obs(format!("editor refused a valid program: {}", e.chars().take(80).collect::<String>()));
            }
        }
        Ok(Ok(wr)) => {
            out.h("editor-accepted");
            if p.refused_attempts > 0 {
                if std::env::var("C10_DEBUG").is_ok() {
                    println!("DEBUG case {i}: {:?}", p.log);
                }
                out.h("role-signing-refused-then-retried");
            }
            if p.revisits > 0 {
                out.h("role-revisited:replace-then-remove");
            }
            if inadequate_final {
                notes.push("sign succeeded although the snapshot key was missing".into());
            }
            check_written_meta(&wr.md, spec.consistent, &mut out);
            let ds = dir.join("ds");
            std::fs::create_dir_all(&ds).unwrap();
            let lr = w.rt.block_on(load_dir(&wr.root_bytes, &wr.md, &wr.tg, &ds, wd));
            out.evals += 1;
            match lr {
                Err(e) if e == "watchdog" => out.inconc("watchdog"),
                Err(e) => {
                    let cause = if unmeetable {
                        "delegated-threshold"
                    } else if dup_signers {
                        "one-key-listed-repeatedly"
                    } else {
                        "other"
                    };
                    out.viol(format!("unloadable:cause={cause}"), format!("the editor reported success but the written repository does not load: {e}"));
                }
                Ok(repo) => {
                    out.h("loaded");
                    // (b) model comparison
                    if repo.snapshot().signed.version.get() != spec.snap_version || repo.timestamp().signed.version.get() != spec.ts_version {
                        out.viol("loaded-differs-from-model:what=online-versions", format!("snapshot {} timestamp {}", repo.snapshot().signed.version, repo.timestamp().signed.version));
                    }
                    compare_views("targets", &role_view(&repo.targets().signed), &model_view(spec.tg_version, &spec.targets, &spec.delegations), &mut out);
                    for d in all_delegs(&spec) {
                        match repo.delegated_role(&d.name).and_then(|x| x.targets.as_ref()) {
                            None => out.viol("loaded-differs-from-model:what=role-missing", d.name.clone()),
                            Some(t) => compare_views(&d.name, &role_view(&t.signed), &model_view(d.version, &d.targets, &d.children), &mut out),
                        }
                        out.h("delegated-role-compared");
                    }
                    // (c) every published target downloads and verifies
                    for t in all_targets(&spec) {
                        let class = name_class(&t.name);
                        let rd = w.rt.block_on(read_all(&repo, &t.name, wd));
                        out.evals += 1;
                        match rd {
                            Ok(Some(b)) if b == t.content => out.h(format!("target-downloaded:class={class}")),
                            Ok(Some(_)) => out.viol(format!("target-differs:class={class}"), t.name.clone()),
                            Ok(None) => out.viol(format!("target-not-listed:class={class}"), t.name.clone()),
                            Err(e) if e == "watchdog" => out.inconc("watchdog"),
                            Err(e) => out.viol(
                                format!("target-unfetchable:class={class}:transport=file"),
                                format!("{:?} was published but cannot be downloaded from the written repository: {e}", t.name),
                            ),
                        }
                    }
                    // (d) one case in four: the same written repository through the HTTP transport
                    if i % 4 == 1 {
                        http_leg(w, &spec, &wr, &dir, &mut out);
                    }
                    // (e) second release into the same targets directory (flat repositories only, so that the
                    // cross-party step below and the legs above is not disturbed)
                    if spec.delegations.is_empty() && !spec.targets.is_empty() {
                        second_release(w, &spec, &wr, &dir, publish, &mut r, &mut out);
                    }
                    // cross-party flow on one depth-1 role
                    if let Some(d) = spec.delegations.first() {
                        if !unmeetable && !dup_signers {
                            cross_party(w, &spec, d, &wr, repo, &dir, &mut r, &mut out, &mut notes);
                        }
                    }
                }
            }
        }
    }
    out.h(format!("delegation-depth={}", opts.max_depth.min(3)));
    out.h(format!("consistent={}", spec.consistent));
    out.h(format!("publish={publish:?}"));
    if opts.big_delegated {
        out.h("delegated-larger-than-targets-json");
    }
    out.fingerprint = Some(format!("{i}"));
    out.nontrivial = nd > 0 || all_targets(&spec).iter().any(|t| name_class(&t.name) != "inert");
    out.desc = Some(obj! {
        "consistent_snapshot" => spec.consistent,
        "roles" => J::A(all_delegs(&spec).iter().map(|d| J::S(format!("{} (keys {:?}, threshold {}, {} targets)", d.name, d.keys, d.threshold, d.targets.len()))).collect()),
        "targets_total" => all_targets(&spec).len(),
        "program" => J::A(p.log.iter().map(|s| J::S(s.clone())).collect()),
        "editor_refused" => p.refused.clone().map_or(J::Null, J::S),
        "notes" => J::A(notes.into_iter().map(J::S).collect()),
    });
    w.cleanup(&dir);
    out
}

/// A second release: one target gets new content (staged in another input directory), the repository is
/// re-signed through `from_repo` and the target is published again into the SAME targets directory
/// with each way of treating the existing entry. If the publication reports success, the client must
/// be served the new, signed content.
fn second_release(w: &mut Worker, spec: &RepoSpec, wr: &Written, dir: &Path, publish: Publish, r: &mut Rng, out: &mut CaseOut) {
    let wd = client::watchdog(w.cfg.tier);
    let t = &spec.targets[0];
    let Ok(tn) = TargetName::new(t.name.clone()) else { return };
    let mut newc = t.content.clone();
    newc.extend_from_slice(b" -- second release");
    let exists = *r.pick(&[PathExists::Skip, PathExists::Replace, PathExists::Fail]);
    let exists_name = match exists {
        PathExists::Skip => "skip",
        PathExists::Replace => "replace",
        PathExists::Fail => "fail",
    };
    let ds = dir.join("ds-rel2");
    std::fs::create_dir_all(&ds).unwrap();
    let Ok(repo) = w.rt.block_on(load_dir(&wr.root_bytes, &wr.md, &wr.tg, &ds, wd)) else { return };
    let md2 = dir.join("release2/metadata");
    let base = Path::new(tn.resolved()).file_name().map(|f| f.to_string_lossy().to_string()).unwrap_or_else(|| "f".into());
    let src = dir.join("input-release2").join(base);
    std::fs::create_dir_all(src.parent().unwrap()).unwrap();
    std::fs::write(&src, &newc).unwrap();
    let res: Result<(), String> = w.rt.block_on(async {
        let mut ed = RepositoryEditor::from_repo(&wr.root_path, repo).await.map_err(|e| client::full_error(&e))?;
        ed.add_target(t.name.as_str(), mk_target(&TargetSpec::new(&t.name, &newc))).map_err(|e| client::full_error(&e))?;
        ed.targets_version(nz(spec.tg_version + 1)).map_err(|e| e.to_string())?;
        ed.targets_expires(far()).map_err(|e| e.to_string())?;
        ed.snapshot_version(nz(spec.snap_version + 1)).snapshot_expires(far()).timestamp_version(nz(spec.ts_version + 1)).timestamp_expires(far());
        let signed = ed.sign(&sources(&[0, 1, 2, 17, 3])).await.map_err(|e| client::full_error(&e))?;
        signed.write(&md2).await.map_err(|e| client::full_error(&e))?;
        match publish {
            Publish::Copy => signed.copy_target(&src, &wr.tg, exists, Some(&tn)).await,
            Publish::Link => signed.link_target(&src, &wr.tg, exists, Some(&tn)).await,
        }
        .map_err(|e| client::full_error(&e))
    });
    out.evals += 1;
    let label = format!("publish={publish:?}:existing={exists_name}:consistent={}", spec.consistent);
    match res {
        Err(_) => out.h(format!("second-release:refused:{label}")),
        Ok(()) => {
            out.h(format!("second-release:accepted:{label}"));
            let ds2 = dir.join("ds-rel2b");
            std::fs::create_dir_all(&ds2).unwrap();
            match w.rt.block_on(load_dir(&wr.root_bytes, &md2, &wr.tg, &ds2, wd)) {
                Err(e) if e == "watchdog" => out.inconc("watchdog"),
                Err(e) => out.viol("unloadable:cause=second-release", e),
                Ok(rp) => {
                    out.evals += 1;
                    match w.rt.block_on(read_all(&rp, &t.name, wd)) {
                        Ok(Some(b)) if b == newc => {}
                        Err(e) if e == "watchdog" => out.inconc("watchdog"),
                        // names the written repository cannot serve at all are the known finding K, not this rule
                        _ if name_class(&t.name) != "inert" => {}
                        other => out.viol(
                            format!("second-release-not-served:{label}"),
                            format!("{:?} was published again with new content and the publication reported success, but the client gets {:?}", t.name, other.map(|o| o.map(|b| b.len()))),
                        ),
                    }
                }
            }
        }
    }
}

static HTTPD: std::sync::OnceLock<crate::httpd::Server> = std::sync::OnceLock::new();
static HTTP_ID: std::sync::atomic::AtomicU64 = std::sync::atomic::AtomicU64::new(0);

/// The written repository served by a plain static web server on the loopback interface (query string
/// dropped, path percent-decoded, as nginx / S3 do) and loaded through tough's HTTP transport: it
/// must load and every published target must download with its content. A failure is reported only
/// if it repeats on a second attempt (loaded machine, wall-clock client timeouts).
fn http_leg(w: &mut Worker, spec: &RepoSpec, wr: &Written, dir: &Path, out: &mut CaseOut) {
    let wd = client::watchdog(w.cfg.tier);
    let srv = HTTPD.get_or_init(crate::httpd::Server::start);
    let id = HTTP_ID.fetch_add(1, std::sync::atomic::Ordering::Relaxed);
    let pm = format!("/c10-{id}/metadata/");
    let pt = format!("/c10-{id}/targets/");
    srv.add_dir(&pm, &wr.md);
    srv.add_dir(&pt, &wr.tg);
    let transport = || {
        tough::HttpTransportBuilder::new()
            .tries(2)
            .timeout(Duration::from_secs(10))
            .connect_timeout(Duration::from_secs(5))
            .initial_backoff(Duration::from_millis(1))
            .max_backoff(Duration::from_millis(2))
            .build()
    };
    let mut loaded = None;
    let mut last_err = String::new();
    for attempt in 0..2 {
        let ds = dir.join(format!("ds-http-{attempt}"));
        std::fs::create_dir_all(&ds).unwrap();
        let root = wr.root_bytes.clone();
        let l = tough::RepositoryLoader::new(&root, url::Url::parse(&srv.url(&pm)).unwrap(), url::Url::parse(&srv.url(&pt)).unwrap())
            .transport(transport())
            .datastore(&ds);
        out.evals += 1;
        match w.rt.block_on(async { tokio::time::timeout(wd, l.load()).await }) {
            Err(_) => last_err = "watchdog".into(),
            Ok(Err(e)) => last_err = client::full_error(&e),
            Ok(Ok(r)) => {
                loaded = Some(r);
                if attempt == 1 {
                    out.inconc("http-leg: load failure not reproduced on the second attempt");
                }
                break;
            }
        }
    }
    match loaded {
        None if last_err == "watchdog" => out.inconc("watchdog"),
        None => {
            // the one cause that is a listed finding is named precisely; anything else stays "other"
            let file = last_err.split("/metadata/").nth(1).map(|s| s.split([':', ' ', '\'']).next().unwrap_or("").to_string()).unwrap_or_default();
            let cause = if file.contains('%') && last_err.contains("404") {
                "percent-encoded-role-file-name-not-found"
            } else {
                "other"
            };
            out.viol(
                format!("unloadable:transport=http:cause={cause}"),
                format!("the written repository loads through file:// but not through HTTP: {last_err}"),
            )
        }
        Some(repo) => {
            out.h("http-leg:loaded");
            for t in all_targets(spec) {
                let class = name_class(&t.name);
                let mut verdict: Option<(String, String)> = None;
                for attempt in 0..2 {
                    out.evals += 1;
                    let rd = w.rt.block_on(read_all(&repo, &t.name, wd));
                    let v = match rd {
                        Ok(Some(b)) if b == t.content => None,
                        Ok(Some(_)) => Some((format!("target-differs:class={class}:transport=http"), t.name.clone())),
                        Ok(None) => Some((format!("target-not-listed:class={class}:transport=http"), t.name.clone())),
                        Err(e) if e == "watchdog" => {
                            out.inconc("watchdog");
                            None
                        }
                        Err(e) => Some((
                            format!("target-unfetchable:class={class}:transport=http"),
                            format!("{:?} was published but cannot be downloaded over HTTP from the written repository: {e}", t.name),
                        )),
                    };
                    match (v, attempt) {
                        (None, 0) => {
                            out.h(format!("http-leg:target-downloaded:class={class}"));
                            break;
                        }
                        (None, _) => {
                            out.inconc("http-leg: download failure not reproduced on the second attempt");
                            verdict = None;
                            break;
                        }
                        (Some(x), _) => verdict = Some(x),
                    }
                }
                if let Some((sig, detail)) = verdict {
                    out.viol(sig, detail);
                }
            }
        }
    }
    let reqs = srv.remove_dir(&pm).len() + srv.remove_dir(&pt).len();
    if reqs > 0 {
        out.h("http-leg:requests-answered-by-the-static-server");
    }
}

/// The role holder edits and signs its own role; the owner incorporates the incoming metadata.
#[allow(clippy::too_many_arguments)]
fn cross_party(w: &mut Worker, spec: &RepoSpec, d: &DelegSpec, wr: &Written, repo: tough::Repository, dir: &Path, r: &mut Rng, out: &mut CaseOut, notes: &mut Vec<String>) {
    let wd = client::watchdog(w.cfg.tier);
    let incoming = dir.join("incoming");
    std::fs::create_dir_all(&incoming).unwrap();
    let prefix = match &d.paths {
        Paths::Patterns(v) => v[0].trim_end_matches('*').to_string(),
        _ => String::new(),
    };
    let newname = format!("{prefix}from-role-holder.bin");
    let newt = TargetSpec::new(&newname, b"added by the role holder");
    let signers = d.signers.clone().unwrap_or_else(|| d.keys.clone());
    let removed: Option<TargetSpec> = if r.bool() { d.targets.first().cloned() } else { None };
    // genuine incoming metadata, produced with the library's own TargetsEditor
    let gen: Result<(), String> = w.rt.block_on(async {
        let mut te = TargetsEditor::from_repo(repo, &d.name).map_err(|e| client::full_error(&e))?;
        te.add_target(newname.as_str(), mk_target(&newt)).map_err(|e| client::full_error(&e))?;
        if let Some(t) = &removed {
            // replace an existing target, then think better of it and remove it altogether
            te.add_target(t.name.as_str(), mk_target(&TargetSpec::new(&t.name, b"replacement by the role holder"))).map_err(|e| client::full_error(&e))?;
            te.remove_target(&TargetName::new(t.name.clone()).map_err(|e| e.to_string())?);
        }
        te.version(nz(d.version + 1)).expires(far());
        let s = te.sign(&sources(&signers)).await.map_err(|e| client::full_error(&e))?;
        s.write(&incoming, false).await.map_err(|e| client::full_error(&e))?;
        Ok(())
    });
    out.evals += 1;
    if let Err(e) = gen {
        out.obs(format!("role holder could not sign its own role: {}", e.chars().take(80).collect::<String>()));
        return;
    }
    let fname = format!("{}.json", enc_name(&d.name));
    let Some(genuine) = std::fs::read(incoming.join(&fname)).ok().and_then(|b| J::parse(&b).ok()) else {
        out.viol("incoming-file-not-written", format!("TargetsEditor::sign/write did not produce {fname}"));
        return;
    };
    // variants
    let kinds = ["genuine", "under-signed", "wrong-keys", "duplicate-signatures", "older"];
    let kind = kinds[r.usize(kinds.len())];
    let signed = genuine.at("signed").clone();
    let msg = signed_bytes(&signed);
    let doc = match kind {
        "genuine" => genuine.clone(),
        "under-signed" => {
            // one signature fewer than the threshold
            let keep = (d.threshold as usize).saturating_sub(1);
            envelope(signed.clone(), genuine.at("signatures").items().iter().take(keep).cloned().collect())
        }
        "wrong-keys" => sign_with(&signed, &[18, 19]),
        "duplicate-signatures" => {
            // threshold many signatures, all by ONE authorised key
            let k = d.keys[0];
            let n = (d.threshold as usize).max(2);
            envelope(signed.clone(), (0..n).map(|_| sig_entry(&key(k).id(), &key(k).sign(&msg))).collect())
        }
        _ => {
            let mut s = signed.clone();
            s.set("version", d.version.saturating_sub(1).max(1));
            if d.version == 1 {
                // cannot be older than version 1: make it the genuine one instead
                genuine.clone()
            } else {
                sign_with(&s, &signers)
            }
        }
    };
    let kind = if kind == "older" && d.version == 1 { "genuine" } else { kind };
    // is the variant acceptable by the statement?
    let distinct_good = {
        let mut good: Vec<String> = Vec::new();
        for s in doc.at("signatures").items() {
            let id = s.at("keyid").as_str().unwrap_or("").to_lowercase();
            if let Some(k) = d.keys.iter().find(|k| key(**k).id() == id) {
                let sig = hex::decode(s.at("sig").as_str().unwrap_or("")).unwrap_or_default();
                if key(*k).verify(&signed_bytes(doc.at("signed")), &sig) && !good.contains(&id) {
                    good.push(id);
                }
            }
        }
        good.len() as u64
    };
    let acceptable = distinct_good >= d.threshold && doc.at("signed").at("version").as_u64().unwrap_or(0) >= d.version;
    std::fs::write(incoming.join(&fname), render(&doc, Style::Pretty)).unwrap();
    let _ = cached_sign;
    // owner side
    let ds2 = dir.join("ds-owner");
    std::fs::create_dir_all(&ds2).unwrap();
    let owner_repo = match w.rt.block_on(load_dir(&wr.root_bytes, &wr.md, &wr.tg, &ds2, wd)) {
        Ok(r) => r,
        Err(_) => return,
    };
    let url = url::Url::from_directory_path(&incoming).unwrap().to_string();
    let updated = dir.join("updated/metadata");
    let res: Result<(), String> = w.rt.block_on(async {
        let mut ed = RepositoryEditor::from_repo(&wr.root_path, owner_repo).await.map_err(|e| format!("from_repo: {}", client::full_error(&e)))?;
        ed.update_delegated_targets(&d.name, &url).await.map_err(|e| format!("update_delegated_targets: {}", client::full_error(&e)))?;
        ed.change_delegated_targets("targets").map_err(|e| format!("change: {}", client::full_error(&e)))?;
        ed.targets_version(nz(spec.tg_version + 1)).map_err(|e| e.to_string())?;
        ed.targets_expires(far()).map_err(|e| e.to_string())?;
        ed.snapshot_version(nz(spec.snap_version + 1)).snapshot_expires(far()).timestamp_version(nz(spec.ts_version + 1)).timestamp_expires(far());
        let s = ed.sign(&sources(&[0, 1, 2, 17, 3])).await.map_err(|e| format!("sign: {}", client::full_error(&e)))?;
        s.write(&updated).await.map_err(|e| format!("write: {}", client::full_error(&e)))?;
        Ok(())
    });
    out.evals += 1;
    out.h(format!("cross-party:{kind}"));
    match &res {
        Ok(()) => {
            if !acceptable {
                out.viol(
                    format!("incoming-accepted:{kind}"),
                    format!("role {:?} (threshold {}, version {}): incoming metadata with {distinct_good} distinct valid authorised signature(s), version {:?} replaced the role", d.name, d.threshold, d.version, doc.at("signed").at("version")),
                );
            } else {
                // the result must load and expose the role holder's new target
                let ds3 = dir.join("ds-after");
                std::fs::create_dir_all(&ds3).unwrap();
                match w.rt.block_on(load_dir(&wr.root_bytes, &updated, &wr.tg, &ds3, wd)) {
                    Err(e) if e == "watchdog" => out.inconc("watchdog"),
                    Err(e) => out.viol("unloadable:cause=after-incorporating-genuine-metadata", e),
                    Ok(rp) => {
                        let has = rp.delegated_role(&d.name).and_then(|x| x.targets.as_ref()).map_or(false, |t| t.signed.targets.keys().any(|n| n.raw() == newname));
                        if !has {
                            out.viol("incorporated-role-lost-content", format!("{newname:?} missing from role {:?} after update", d.name));
                        }
                        // exactly: the role's targets, minus the one the role holder removed, plus the new one
                        if let Some(t) = rp.delegated_role(&d.name).and_then(|x| x.targets.as_ref()) {
                            let mut got: Vec<String> = t.signed.targets.keys().map(|n| n.raw().to_string()).collect();
                            let mut want: Vec<String> = d.targets.iter().filter(|x| removed.as_ref().map_or(true, |r| r.name != x.name)).map(|x| x.name.clone()).collect();
                            want.push(newname.clone());
                            got.sort();
                            want.sort();
                            want.dedup();
                            if got != want {
                                let extra: Vec<&String> = got.iter().filter(|g| !want.contains(g)).collect();
                                let missing: Vec<&String> = want.iter().filter(|g| !got.contains(g)).collect();
                                out.viol(
                                    format!("incorporated-role-differs:extra={}:missing={}", !extra.is_empty(), !missing.is_empty()),
                                    format!("role {:?} after the role holder's edit (removed: {:?}): unexpected {extra:?}, missing {missing:?}", d.name, removed.as_ref().map(|t| &t.name)),
                                );
                            }
                            if removed.is_some() {
                                out.h("cross-party:replace-then-remove-by-role-holder");
                            }
                        }
                        out.h("cross-party:incorporated-and-reloaded");
                    }
                }
            }
        }
        Err(e) => {
            if acceptable {
                notes.push(format!("genuine incoming metadata refused: {e}"));
                out.obs("genuine-incoming-refused");
            } else {
                out.h("cross-party:bad-incoming-refused");
            }
        }
    }
}

pub fn run(cfg: &Cfg) -> i32 {
    let start = Instant::now();
    let _ = crate::keys::pool();
    let n = cfg.tier.pick(2_000u64, 60_000);
    let budget = cfg.tier.pick(Duration::from_secs(500), Duration::from_secs(2800));
    let ev = par_run(cfg, n, budget, |w, i| Some(run_case(w, i)));
    let mut required: Vec<String> = vec![
        "editor-accepted".into(),
        "loaded".into(),
        "delegated-role-compared".into(),
        "written-meta-entry-checked".into(),
        "target-downloaded:class=inert".into(),
        "delegation-depth=3".into(),
        "consistent=true".into(),
        "consistent=false".into(),
        "publish=Copy".into(),
        "publish=Link".into(),
        "delegated-larger-than-targets-json".into(),
        "editor-refused:inadequate-final-keys".into(),
        "editor-refused:one-key-listed-repeatedly".into(),
    ];
    for k in ["genuine", "under-signed", "wrong-keys", "duplicate-signatures", "older"] {
        required.push(format!("cross-party:{k}"));
    }
    finish(
        cfg,
        ev,
        Finish {
            level: "exploration",
            rule: "a random target repository model (delegation tree to depth 3, 1..3 mixed-algorithm keys per role with thresholds 1..n — a sixth with an unmeetable threshold —, 0..45 targets per role of 0..32 KiB, names of every URL class, custom data) is turned into an editing program for the real RepositoryEditor: add/remove/clear targets with detours, versions/expirations set (and overwritten), delegate_role, change_delegated_targets / sign_targets_editor per role, final sign with adequate or inadequate keys, write, publication by copy_target or link_target. If the editor reports success: the written snapshot/timestamp entries are compared with the files on disk (length, SHA-256, version), the repository is loaded through file:// with the same root and compared role by role with the model through typed accessors, and every target is downloaded. Then a cross-party step: the role holder edits its role with TargetsEditor::from_repo/sign/write, the incoming file is replaced by a variant (genuine / under-signed / wrong keys / duplicate signatures of one key / older) and the owner calls update_delegated_targets. One evaluation = one program / load / download / cross-party step. Non-trivial = a delegation or a non-inert target name.",
            assumptions: vec![
                "a program the editor refuses is not judged (the statement speaks about programs it accepts)".into(),
                "refusing genuine incoming metadata is recorded as an observation (the statement has only the 'only if' direction)".into(),
            ],
            required_hist: required,
            min_evaluations: 1000,
        },
        start.elapsed(),
    )
}
