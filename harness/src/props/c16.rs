//! C16 — role names never steer file access outside the metadata directories, nor collide.

use crate::client::{self, LoadOpts};
use crate::forge::*;
use crate::fstree;
use crate::json::{render, Style, J};
use crate::keys::key;
use crate::memtransport::MemTransport;
use crate::obj;
use crate::rng::Rng;
use crate::run::*;
use chrono::{TimeZone, Utc};
use std::collections::{BTreeMap, BTreeSet, HashMap};
use std::num::NonZeroU64;
use std::path::Path;
use std::sync::{Arc, Mutex, OnceLock};
use std::time::{Duration, Instant};
use tough::editor::RepositoryEditor;
use tough::schema::{PathPattern, PathSet};

const SYMS: [&str; 12] = ["a", "/", "\\", ".", "%", "?", "#", ":", " ", "\u{1}", "\u{e9}", "\u{1f37a}"];
const PER_REPO: usize = 8;

fn all_names(maxlen: usize) -> Vec<String> {
    let mut out = Vec::new();
    fn rec(cur: &mut String, len: usize, maxlen: usize, out: &mut Vec<String>) {
        if len > 0 {
            out.push(cur.clone());
        }
        if len == maxlen {
            return;
        }
        for s in SYMS {
            let l = cur.len();
            cur.push_str(s);
            rec(cur, len + 1, maxlen, out);
            cur.truncate(l);
        }
    }
    rec(&mut String::new(), 0, maxlen, &mut out);
    out
}

fn special_names() -> Vec<String> {
    [
        // first repository (8 roles, in this delegation order): names that are what a temporary / hidden /
        // backup file of ANOTHER role's file (or of a fixed file) would be called
        ".w", "w", "w.tmp", "w~", ".targets", ".snapshot", ".timestamp", "w.json.tmp",
        ".", "..", "...", "a.json", ".json", "a/b", "a%2Fb", "a%252Fb", "a%2fb", "a\\b", "a%5Cb", "../a", "..%2Fa", "%2E%2E%2Fa", "a/../b", "a?x", "a%3Fx", "a#x", "a%23x",
        "a b", "a%20b", "a+b", "A", "a", "%61", "%", "%%", "%2", "a:", "c:/x", "\u{e9}", "%C3%A9", "e\u{301}", "/", "//", "/a", "a/", "~", "-", "_", "a.b.json", "1.a", "1.a.json",
    ]
    .iter()
    .map(|s| s.to_string())
    .collect()
}

fn random_name(r: &mut Rng) -> String {
    let n = 1 + r.usize(64);
    let mut s = String::new();
    for _ in 0..n {
        if r.chance(1, 3) {
            s.push_str(["b", "Z", "9", "-", "_", "~", "%2F", "%2e", "..", ".json"][r.usize(10)]);
        } else {
            s.push_str(SYMS[r.usize(SYMS.len())]);
        }
    }
    s
}

/// place -> (consistent, file name) -> role name ; across the whole run
type Global = Mutex<HashMap<(String, bool, String), String>>;
static GLOBAL: OnceLock<Global> = OnceLock::new();

fn record(place: &str, consistent: bool, fname: &str, role: &str, out: &mut CaseOut) {
    let g = GLOBAL.get_or_init(Default::default);
    let mut m = g.lock().unwrap();
    let k = (place.to_string(), consistent, fname.to_string());
    match m.get(&k) {
        Some(prev) if prev != role => out.viol(
            format!("collision:place={place}"),
            format!("role names {prev:?} and {role:?} both map to file {fname:?} ({place}, consistent={consistent})"),
        ),
        Some(_) => {}
        None => {
            m.insert(k, role.to_string());
        }
    }
}

fn plain_entry_url(path: &str) -> Result<String, String> {
    let Some(rest) = path.strip_prefix("/metadata/") else {
        return Err(format!("request {path:?} leaves the metadata base"));
    };
    if rest.is_empty() || rest.contains('/') || rest.contains('?') || rest.contains('#') || rest == "." || rest == ".." {
        return Err(format!("request {path:?} is not a plain entry of the metadata base"));
    }
    Ok(rest.to_string())
}

/// Entries of `dir` (direct children only) + check that nothing else changed in `parent`.
fn listing(dir: &Path) -> BTreeSet<String> {
    std::fs::read_dir(dir)
        .map(|rd| rd.flatten().map(|e| e.file_name().to_string_lossy().to_string()).collect())
        .unwrap_or_default()
}

fn check_dir(place: &str, dir: &Path, parent_before: &fstree::Tree, parent: &Path, out: &mut CaseOut) -> BTreeSet<String> {
    let after = fstree::snapshot(parent);
    let d = fstree::diff(parent_before, &after);
    for (p, e) in &d.created {
        if p == dir {
            continue; // the output directory itself may be created by the call
        }
        let inside_direct = p.parent() == Some(dir);
        if !inside_direct {
            out.viol(
                format!("not-plain-entry:place={place}"),
                format!("{} created at {} which is not directly inside {}", if *e == fstree::Entry::Dir { "directory" } else { "file" }, p.display(), dir.display()),
            );
        } else if *e == fstree::Entry::Dir {
            out.viol(format!("not-plain-entry:place={place}"), format!("sub-directory {} created", p.display()));
        }
    }
    for (p, _, _) in &d.modified {
        if !p.starts_with(dir) {
            out.viol(format!("not-plain-entry:place={place}"), format!("{} modified outside {}", p.display(), dir.display()));
        }
    }
    listing(dir)
}

fn strip_version(consistent: bool, fname: &str) -> String {
    if consistent {
        if let Some((v, rest)) = fname.split_once('.') {
            if !v.is_empty() && v.chars().all(|c| c.is_ascii_digit()) {
                return rest.to_string();
            }
        }
    }
    fname.to_string()
}

fn fixed_name(consistent: bool, f: &str) -> bool {
    let s = strip_version(consistent, f);
    matches!(s.as_str(), "timestamp.json" | "snapshot.json" | "targets.json" | "latest_known_time.json" | "root.json")
        || (f.ends_with(".root.json") && f.trim_end_matches(".root.json").chars().all(|c| c.is_ascii_digit()))
}

fn run_case(w: &mut Worker, names: &[String], consistent: bool, source: &str) -> CaseOut {
    let mut out = CaseOut::default();
    let dir = w.case_dir();
    let keys = RootKeys::simple();
    let st = Style::Compact;
    let wd = client::watchdog(w.cfg.tier);
    // ---- forged repository: top-level targets delegates to every name
    let mut files = BTreeMap::new();
    let root1 = render(&sign_with(&root_signed(1, consistent, FAR, &keys), &keys.root.keys), st);
    files.insert(meta_path(consistent, 1, "root"), root1.clone());
    let all = Paths::Patterns(vec!["*".into()]);
    let rkey = |i: usize| 4 + i;
    let delegs = delegations(
        &(0..names.len()).map(rkey).collect::<Vec<_>>(),
        names.iter().enumerate().map(|(i, n)| delegated_role_entry(n, &[rkey(i)], 1, &all, false)).collect(),
    );
    let tg = sign_with_sut_canon(&targets_signed(1, FAR, vec![], Some(delegs)), &keys.targets.keys);
    files.insert(meta_path(consistent, 1, "targets"), render(&tg, st));
    let mut meta = vec![("targets.json".to_string(), metafile(1, None, None))];
    for n in names {
        meta.push((format!("{n}.json"), metafile(1, None, None)));
    }
    files.insert(
        meta_path(consistent, 1, "snapshot"),
        render(&sign_with_sut_canon(&snapshot_signed(1, FAR, meta), &keys.snapshot.keys), st),
    );
    files.insert(
        meta_path(consistent, 1, "timestamp"),
        render(&sign_with(&timestamp_signed(1, FAR, metafile(1, None, None)), &keys.timestamp.keys), st),
    );
    let t = MemTransport::new(files);
    {
        // role documents are handed out in the order the client asks for unknown files: the
        // harness does not assume how a role name becomes a file name
        let mut g = t.inner.lock().unwrap();
        for (i, n) in names.iter().enumerate() {
            let doc = sign_with(&targets_signed(1, FAR, vec![], None), &[rkey(i)]);
            g.fallback_queue.push_back((n.clone(), Arc::new(render(&doc, st))));
        }
    }
    let parent = dir.join("p");
    let ds = parent.join("datastore");
    std::fs::create_dir_all(&ds).unwrap();
    std::fs::write(parent.join("sentinel"), b"s").unwrap();
    let before = fstree::snapshot(&parent);
    let res = w.rt.block_on(client::load(&root1, &t, &ds, &LoadOpts::default(), wd));
    out.evals += 1;
    // place 1: URLs
    let served: Vec<(String, String)> = t.inner.lock().unwrap().fallback_served.clone();
    let mut url_of: BTreeMap<String, String> = BTreeMap::new();
    for r in t.log() {
        match plain_entry_url(&r.path) {
            Ok(_) => {}
            Err(e) => out.viol("not-plain-entry:place=url", e),
        }
    }
    for (path, role) in &served {
        if let Ok(f) = plain_entry_url(path) {
            let f = strip_version(consistent, &f);
            record("url", consistent, &f, role, &mut out);
            url_of.insert(role.clone(), f);
        }
    }
    // within this repository: distinct names must have asked for distinct files
    let distinct_urls: BTreeSet<&String> = served.iter().map(|(p, _)| p).collect();
    if res.is_ok() && distinct_urls.len() != names.len() {
        out.viol(
            "collision:place=url",
            format!("{} role names but only {} distinct files requested: {:?}", names.len(), distinct_urls.len(), served),
        );
    }
    // place 2: datastore
    let ds_list = check_dir("datastore", &ds, &before, &parent, &mut out);
    let ds_roles: Vec<&String> = ds_list.iter().filter(|f| !fixed_name(consistent, f)).collect();
    let too_long = names.iter().any(|n| enc_name(n).len() + 16 > 255);
    match &res {
        Ok(repo) => {
            if ds_roles.len() != names.len() {
                out.viol(
                    "collision:place=datastore",
                    format!("{} delegated roles loaded but {} role files in the datastore: {:?}", names.len(), ds_roles.len(), ds_roles),
                );
            }
            for (role, f) in &url_of {
                let in_ds = ds_roles.iter().any(|d| strip_version(consistent, d) == *f);
                if in_ds {
                    record("datastore", consistent, f, role, &mut out);
                } else {
                    out.obs("datastore-file-name-differs-from-url-name");
                }
            }
            // place 3: cache_metadata
            let cparent = dir.join("c");
            let cdir = cparent.join("cached-metadata");
            std::fs::create_dir_all(&cparent).unwrap();
            let cbefore = fstree::snapshot(&cparent);
            let nlog = t.log().len();
            let cres = w.rt.block_on(async { tokio::time::timeout(wd, repo.cache_metadata(&cdir, true)).await });
            out.evals += 1;
            let clist = check_dir("cache", &cdir, &cbefore, &cparent, &mut out);
            // every request made while caching must be a plain entry too - whether or not caching succeeds
            for r in t.log().iter().skip(nlog) {
                if let Err(e) = plain_entry_url(&r.path) {
                    out.viol("not-plain-entry:place=url-while-caching", e);
                }
            }
            match cres {
                Err(_) => out.inconc("watchdog"),
                Ok(Err(e)) => out.obs(format!("cache_metadata failed: {}", client::err_class(&e))),
                Ok(Ok(())) => {
                    let croles: Vec<&String> = clist.iter().filter(|f| !fixed_name(consistent, f)).collect();
                    if croles.len() != names.len() {
                        out.viol(
                            "collision:place=cache",
                            format!("{} delegated roles but {} role files cached: {:?}", names.len(), croles.len(), croles),
                        );
                    }
                    for (role, f) in &url_of {
                        if croles.iter().any(|d| strip_version(consistent, d) == *f) {
                            record("cache", consistent, f, role, &mut out);
                        }
                    }
                    out.h("cache=ok");
                }
            }
            out.h("load=ok");
        }
        Err(client::LoadErr::Watchdog) => out.inconc("watchdog"),
        Err(e) => {
            if too_long {
                out.h("load=refused:name-too-long");
            } else {
                // a refusal is not a violation of C16, but the monitor then sees less
                out.obs(format!("load refused: {}", e.class()));
                out.h("load=refused");
            }
        }
    }
    // place 4: editor
    let eparent = dir.join("e");
    let edir = eparent.join("written-metadata");
    std::fs::create_dir_all(&eparent).unwrap();
    let root_path = dir.join("root-for-editor.json");
    std::fs::write(&root_path, &root1).unwrap();
    let ebefore = fstree::snapshot(&eparent);
    let far = Utc.with_ymd_and_hms(2100, 1, 1, 0, 0, 0).unwrap();
    let one = NonZeroU64::new(1).unwrap();
    let eres: Result<(), String> = w.rt.block_on(async {
        let r = tokio::time::timeout(wd, async {
            let mut ed = RepositoryEditor::new(&root_path).await.map_err(|e| client::full_error(&e))?;
            ed.targets_version(one).map_err(|e| e.to_string())?;
            ed.targets_expires(far).map_err(|e| e.to_string())?;
            ed.snapshot_version(one).snapshot_expires(far).timestamp_version(one).timestamp_expires(far);
            for (i, n) in names.iter().enumerate() {
                ed.delegate_role(
                    n,
                    &[key(rkey(i)).source()],
                    PathSet::Paths(vec![PathPattern::new("*").unwrap()]),
                    one,
                    far,
                    one,
                )
                .await
                .map_err(|e| client::full_error(&e))?;
            }
            let ks: Vec<Box<dyn tough::key_source::KeySource>> = (0..4).map(|k| key(k).source()).collect();
            let signed = ed.sign(&ks).await.map_err(|e| client::full_error(&e))?;
            signed.write(&edir).await.map_err(|e| client::full_error(&e))?;
            Ok::<(), String>(())
        })
        .await;
        match r {
            Err(_) => Err("watchdog".to_string()),
            Ok(x) => x,
        }
    });
    out.evals += 1;
    let elist = check_dir("editor", &edir, &ebefore, &eparent, &mut out);
    match &eres {
        Ok(()) => {
            let eroles: Vec<&String> = elist.iter().filter(|f| !fixed_name(consistent, f)).collect();
            let distinct_names: BTreeSet<&String> = names.iter().collect();
            if eroles.len() != distinct_names.len() {
                out.viol(
                    "collision:place=editor",
                    format!("{} delegated roles written as {} files: {:?}", distinct_names.len(), eroles.len(), eroles),
                );
            }
            for (role, f) in &url_of {
                if eroles.iter().any(|d| strip_version(consistent, d) == *f) {
                    record("editor", consistent, f, role, &mut out);
                } else {
                    out.obs("editor-file-name-differs-from-client-url-name");
                }
            }
            out.h("editor=ok");
        }
        Err(e) if e == "watchdog" => out.inconc("watchdog"),
        Err(e) => {
            if too_long {
                out.h("editor=refused:name-too-long");
            } else {
                out.obs(format!("editor refused: {}", e.chars().take(60).collect::<String>()));
                out.h("editor=refused");
            }
        }
    }
    out.h(format!("names:{source}"));
    out.h(if consistent { "consistent=true" } else { "consistent=false" });
    for n in names {
        for (sym, label) in [("/", "slash"), ("\\", "backslash"), ("%", "percent"), ("?", "question"), ("#", "hash"), (":", "colon"), (" ", "space"), ("\u{1}", "control"), ("\u{e9}", "multibyte"), ("..", "dotdot")] {
            if n.contains(sym) {
                out.h(format!("name-contains={label}"));
            }
        }
    }
    out.fingerprint = Some(format!("{names:?}|{consistent}"));
    out.nontrivial = names.iter().any(|n| n.chars().any(|c| !c.is_ascii_alphanumeric()));
    out.desc = Some(obj! {
        "role_names" => J::A(names.iter().map(|n| J::S(n.clone())).collect()),
        "consistent_snapshot" => consistent,
        "load" => match &res { Ok(_) => "ok".to_string(), Err(e) => e.text() },
        "files_requested_for_roles" => J::A(served.iter().map(|(p, r)| obj!{"role" => r.as_str(), "request" => p.as_str()}).collect()),
        "datastore_listing" => J::A(ds_list.iter().map(|s| J::S(s.clone())).collect()),
        "editor" => match &eres { Ok(()) => "ok".to_string(), Err(e) => e.clone() },
        "editor_listing" => J::A(elist.iter().map(|s| J::S(s.clone())).collect()),
    });
    w.cleanup(&dir);
    out
}

/// Lexical normalisation of a path ('.' and '..' resolved); None if it climbs above the root.
fn normalise(p: &str) -> Option<String> {
    let mut out: Vec<&str> = Vec::new();
    for seg in p.split('/') {
        match seg {
            "" | "." => {}
            ".." => {
                out.pop()?;
            }
            s => out.push(s),
        }
    }
    Some(format!("/{}", out.join("/")))
}

/// file:// leg: the role's document exists ONLY at the place a percent-decoding or otherwise
/// path-interpreting client would look (the raw role name taken as a path below the metadata
/// directory), never as a plain entry of the metadata directory. A client that only opens plain
/// entries cannot find it, so the load must fail.
fn run_file_leg(w: &mut Worker, name: &str, consistent: bool) -> CaseOut {
    let mut out = CaseOut::default();
    let dir = w.case_dir();
    let keys = RootKeys::simple();
    let st = Style::Compact;
    let base = dir.join("fs/p1/p2/p3");
    let md = base.join("metadata");
    let tg = base.join("targets");
    std::fs::create_dir_all(&md).unwrap();
    std::fs::create_dir_all(&tg).unwrap();
    let root1 = render(&sign_with(&root_signed(1, consistent, FAR, &keys), &keys.root.keys), st);
    let all = Paths::Patterns(vec!["*".into()]);
    let delegs = delegations(&[5], vec![delegated_role_entry(name, &[5], 1, &all, false)]);
    let tgd = sign_with_sut_canon(&targets_signed(1, FAR, vec![], Some(delegs)), &keys.targets.keys);
    let snap = sign_with_sut_canon(
        &snapshot_signed(1, FAR, vec![("targets.json".into(), metafile(1, None, None)), (format!("{name}.json"), metafile(1, None, None))]),
        &keys.snapshot.keys,
    );
    let ts = sign_with(&timestamp_signed(1, FAR, metafile(1, None, None)), &keys.timestamp.keys);
    let fname = |role: &str| meta_path(consistent, 1, role).trim_start_matches("/metadata/").to_string();
    std::fs::write(md.join(fname("root")), &root1).unwrap();
    std::fs::write(md.join(fname("targets")), render(&tgd, st)).unwrap();
    std::fs::write(md.join(fname("snapshot")), render(&snap, st)).unwrap();
    std::fs::write(md.join("timestamp.json"), render(&ts, st)).unwrap();
    let role_doc = render(&sign_with(&targets_signed(1, FAR, vec![], None), &[5]), st);
    // decoy locations: the raw name (and its once-percent-decoded form) taken as a path
    let prefix = if consistent { "1." } else { "" };
    let plain = format!("{prefix}{}.json", enc_name(name));
    let mut decoys: Vec<String> = Vec::new();
    for cand in [name.to_string(), crate::httpd::pct_decode(name)] {
        let rel = format!("{prefix}{cand}.json");
        if rel == plain || cand.contains('\0') {
            continue;
        }
        let full = format!("{}/{}", md.to_str().unwrap(), rel);
        if let Some(n) = normalise(&full) {
            // stay inside this case's directory, never overwrite the fixed metadata files
            let inside = n.starts_with(dir.to_str().unwrap());
            let fixed = [fname("root"), fname("targets"), fname("snapshot"), "timestamp.json".to_string()].iter().any(|f| n == format!("{}/{}", md.to_str().unwrap(), f));
            if inside && !fixed && n.len() < 3500 && !decoys.contains(&n) {
                decoys.push(n);
            }
        }
    }
    let mut placed = 0;
    for d in &decoys {
        let p = std::path::Path::new(d);
        if let Some(parent) = p.parent() {
            if std::fs::create_dir_all(parent).is_ok() && !p.is_dir() && std::fs::write(p, &role_doc).is_ok() {
                placed += 1;
            }
        }
    }
    // the plain entry must not exist (a decoy may coincide with it for inert names: then skip)
    let plain_exists = md.join(&plain).exists();
    let ds = dir.join("ds");
    std::fs::create_dir_all(&ds).unwrap();
    let wd = client::watchdog(w.cfg.tier);
    let res = w.rt.block_on(crate::props::c19::load_dir(&root1, &md, &tg, &ds, wd));
    out.evals = 1;
    if placed == 0 || plain_exists {
        out.h("file-leg:no-distinct-decoy-location");
    } else {
        out.h("file-leg:decoy-placed");
        match &res {
            Ok(repo) => {
                if repo.delegated_role(name).map_or(false, |r| r.targets.is_some()) {
                    out.viol(
                        "not-plain-entry:place=file-transport",
                        format!("role {name:?}: no plain entry {plain:?} exists in the metadata directory, yet the role was loaded — from one of {decoys:?}"),
                    );
                }
            }
            Err(e) if e == "watchdog" => out.inconc("watchdog"),
            Err(_) => {}
        }
    }
    out.h(if consistent { "consistent=true" } else { "consistent=false" });
    out.fingerprint = Some(format!("file|{name}|{consistent}"));
    out.nontrivial = placed > 0;
    out.desc = Some(obj! {"kind" => "file:// leg", "role_name" => name, "plain_entry_expected" => plain.as_str(), "decoys_placed_at" => J::A(decoys.iter().map(|d| J::S(d.clone())).collect()),
        "consistent_snapshot" => consistent, "load" => match &res { Ok(_) => "ok".to_string(), Err(e) => e.clone() }});
    w.cleanup(&dir);
    out
}

pub fn run(cfg: &Cfg) -> i32 {
    let start = Instant::now();
    let _ = crate::keys::pool();
    let mut groups: Vec<(Vec<String>, bool, &'static str)> = Vec::new();
    let maxlen = cfg.tier.pick(3, 4);
    let ex = all_names(maxlen);
    for (i, ch) in ex.chunks(PER_REPO).enumerate() {
        groups.push((ch.to_vec(), i % 2 == 0, "exhaustive"));
    }
    // the same names again under the other consistent-snapshot setting (global collision map is per setting)
    if cfg.tier == Tier::Quick {
        for (i, ch) in ex.chunks(PER_REPO).enumerate() {
            groups.push((ch.to_vec(), i % 2 == 1, "exhaustive"));
        }
    }
    let sp = special_names();
    for ch in sp.chunks(PER_REPO) {
        groups.push((ch.to_vec(), false, "special"));
        groups.push((ch.to_vec(), true, "special"));
    }
    let nrand = cfg.tier.pick(375u64, 60_000);
    for g in 0..nrand {
        let mut r = Rng::for_case(cfg.seed, "C16", g);
        let mut names: Vec<String> = Vec::new();
        while names.len() < PER_REPO {
            let n = random_name(&mut r);
            if !names.contains(&n) {
                names.push(n);
            }
        }
        groups.push((names, r.bool(), "random<=64"));
    }
    // file:// leg: one role per repository
    let mut file_names: Vec<(String, bool)> = Vec::new();
    for (i, n) in ex.iter().chain(sp.iter()).enumerate() {
        file_names.push((n.clone(), i % 2 == 0));
    }
    for g in 0..cfg.tier.pick(300u64, 60_000) {
        let mut r = Rng::for_case(cfg.seed, "C16-file", g);
        file_names.push((random_name(&mut r), r.bool()));
    }
    let budget = cfg.tier.pick(Duration::from_secs(400), Duration::from_secs(2400));
    let ng = groups.len() as u64;
    let mut ev = par_run(cfg, ng + file_names.len() as u64, budget, |w, i| {
        if i < ng {
            groups.get(i as usize).map(|(names, c, src)| run_case(w, names, *c, src))
        } else {
            file_names.get((i - ng) as usize).map(|(n, c)| run_file_leg(w, n, *c))
        }
    });
    let total_names: usize = groups.iter().map(|g| g.0.len()).sum();
    ev.extra.push(("role_names_exercised".into(), J::U(total_names as u64)));
    ev.extra.push((
        "distinct_files_in_global_collision_map".into(),
        J::U(GLOBAL.get_or_init(Default::default).lock().unwrap().len() as u64),
    ));
    let mut required: Vec<String> = vec![
        "names:exhaustive".into(),
        "names:special".into(),
        "names:random<=64".into(),
        "load=ok".into(),
        "cache=ok".into(),
        "editor=ok".into(),
        "file-leg:decoy-placed".into(),
        "consistent=true".into(),
        "consistent=false".into(),
    ];
    for l in ["slash", "backslash", "percent", "question", "hash", "colon", "space", "control", "multibyte", "dotdot"] {
        required.push(format!("name-contains={l}"));
    }
    finish(
        cfg,
        ev,
        Finish {
            level: "exploration",
            rule: "delegated role names over {a / \\ . % ? # : space U+0001 é 🍺}: exhaustive up to length 3 (quick) / 4 (thorough), a list of special names ('.', '..', '*.json', percent-encoded spellings of other names), seeded random names up to 64 symbols; 8 roles per repository. Four places are monitored: URLs requested from the metadata base (the transport hands role documents out in request order, so no encoding is assumed), datastore directory, cache_metadata output, files written by the repository editor — each with a tree snapshot of the directory's parent. Rules: every request/file is a plain entry directly inside its directory; one global map (place, consistent, file name) -> role name, a second role on the same file is a collision. One evaluation = one load / cache / editor run.",
            assumptions: vec![
                "names whose encoded form exceeds NAME_MAX may be refused (counted separately)".into(),
                "collisions with reserved files (timestamp.json, N.root.json, …) are outside the statement".into(),
                "a server that percent-decodes request paths is outside the client's control".into(),
            ],
            required_hist: required,
            min_evaluations: 1000,
        },
        start.elapsed(),
    )
}
