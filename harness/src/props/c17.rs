//! C17 — updating a repository preserves everything that was not deliberately changed.

use crate::client::{self, LoadOpts};
use crate::forge::*;
use crate::json::{refcanon, render, Style, J};
use crate::keys::key;
use crate::memtransport::MemTransport;
use crate::obj;
use crate::props::c19::load_dir;
use crate::rng::Rng;
use crate::run::*;
use crate::specgen::*;
use chrono::{TimeZone, Utc};
use std::num::NonZeroU64;
use std::time::{Duration, Instant};
use tough::editor::RepositoryEditor;
use tough::schema::Target;

const KNOWN_TOP: [&str; 8] = ["_type", "spec_version", "version", "expires", "targets", "delegations", "meta", "consistent_snapshot"];

fn canon_eq(a: &J, b: &J) -> bool {
    refcanon(a).ok() == refcanon(b).ok()
}

fn run_case(w: &mut Worker, i: u64) -> CaseOut {
    let mut out = CaseOut::default();
    let mut r = Rng::for_case(w.cfg.seed, "C17", i);
    let opts = GenOpts {
        odd_target_names: false,
        odd_role_names: r.chance(1, 3),
        extras: !r.chance(1, 5),
        max_depth: r.usize(4),
        big_delegated: r.chance(1, 5),
    };
    let mut spec = gen_spec(&mut r, &opts);
    // one repository in three with delegations lists a key in targets.json's delegations.keys that no
    // delegated role names (what remove_role()/remove_key() leave behind): an update must keep it
    if !spec.delegations.is_empty() && r.chance(1, 3) {
        let named: Vec<usize> = spec.delegations.iter().flat_map(|d| d.keys.clone()).collect();
        if let Some(k) = (4..crate::keys::N_ED).find(|k| !named.contains(k)) {
            spec.spare_deleg_keys = vec![k];
            out.h("orphan-delegation-key");
        }
    }
    let mut built = build(&spec);
    rekey_targets_for_url(&mut built, &spec);
    let t = MemTransport::new(built.files.clone());
    let dir = w.case_dir();
    let wd = client::watchdog(w.cfg.tier);
    let ds = dir.join("ds");
    std::fs::create_dir_all(&ds).unwrap();
    let repo = match w.rt.block_on(client::load(&built.root_bytes, &t, &ds, &LoadOpts::default(), wd)) {
        Ok(r) => r,
        Err(client::LoadErr::Watchdog) => {
            out.inconc("watchdog");
            return out;
        }
        Err(e) => {
            out.broken = Some(format!("C17 source repository does not load: {}", e.text()));
            return out;
        }
    };
    out.evals = 1;
    let root_path = dir.join("root.json");
    std::fs::write(&root_path, &built.root_bytes).unwrap();
    let outdir = dir.join("updated-metadata");
    let nadd = r.usize(4);
    let added: Vec<(String, Vec<u8>)> = (0..nadd)
        .map(|k| {
            let n = format!("added-{k}.bin");
            let c = content_for(&n, sizes(&mut r));
            (n, c)
        })
        .collect();
    let newv = |old: u64| NonZeroU64::new(old + 1 + 0).unwrap();
    let exp = Utc.with_ymd_and_hms(2099, 6, 1, 12, 0, 0).unwrap();
    let (tgv, snv, tsv) = (newv(spec.tg_version), newv(spec.snap_version), newv(spec.ts_version));
    // one case in eight goes through the command line tool (`tuftool update`) instead of the library API
    let cli = i % 8 == 5 && std::path::Path::new(crate::props::c20::TUFTOOL).exists();
    let outdir = if cli { dir.join("cli-out/metadata") } else { outdir };
    let res: Result<(), String> = if cli {
        drop(repo);
        out.h("via=tuftool-update");
        // the source repository on disk (file:// URLs), key files, a directory with the targets to add
        let srcdir = dir.join("src");
        for (k, v) in &built.files {
            let p = srcdir.join(k.trim_start_matches('/'));
            std::fs::create_dir_all(p.parent().unwrap()).unwrap();
            std::fs::write(p, v).unwrap();
        }
        let adddir = dir.join("add");
        std::fs::create_dir_all(&adddir).unwrap();
        for (n, c) in &added {
            std::fs::write(adddir.join(n), c).unwrap();
        }
        let mut cmd = std::process::Command::new(crate::props::c20::TUFTOOL);
        cmd.arg("update");
        for k in 1..4 {
            let kp = dir.join(format!("key-{k}"));
            std::fs::write(&kp, key(k).private_file()).unwrap();
            cmd.args(["--key", kp.to_str().unwrap()]);
        }
        let t = "2099-06-01T12:00:00Z";
        cmd.args(["--root", root_path.to_str().unwrap()])
            .args(["--metadata-url", &format!("file://{}/", srcdir.join("metadata").to_str().unwrap())])
            .args(["--outdir", dir.join("cli-out").to_str().unwrap()])
            .args(["--targets-version", &tgv.to_string(), "--targets-expires", t])
            .args(["--snapshot-version", &snv.to_string(), "--snapshot-expires", t])
            .args(["--timestamp-version", &tsv.to_string(), "--timestamp-expires", t]);
        if !added.is_empty() {
            cmd.args(["--add-targets", adddir.to_str().unwrap()]);
        }
        cmd.env("RUST_BACKTRACE", "0").env("RUST_LIB_BACKTRACE", "0");
        match cmd.stdin(std::process::Stdio::null()).output() {
            Err(e) => Err(format!("cannot run tuftool: {e}")),
            Ok(o) if o.status.success() => Ok(()),
            Ok(o) => Err(format!("tuftool update failed: {}", String::from_utf8_lossy(&o.stderr).chars().take(300).collect::<String>())),
        }
    } else {
        out.h("via=library");
        w.rt.block_on(async {
        let r = tokio::time::timeout(wd, async {
            let mut ed = RepositoryEditor::from_repo(&root_path, repo).await.map_err(|e| client::full_error(&e))?;
            ed.targets_version(tgv).map_err(|e| e.to_string())?;
            ed.targets_expires(exp).map_err(|e| e.to_string())?;
            ed.snapshot_version(snv).snapshot_expires(exp).timestamp_version(tsv).timestamp_expires(exp);
            for (n, c) in &added {
                let tj = target_entry(c, None);
                let tgt: Target = serde_json::from_slice(&render(&tj, Style::Compact)).map_err(|e| e.to_string())?;
                ed.add_target(n.as_str(), tgt).map_err(|e| client::full_error(&e))?;
            }
            let ks: Vec<Box<dyn tough::key_source::KeySource>> = (0..4).map(|k| key(k).source()).collect();
            let signed = ed.sign(&ks).await.map_err(|e| client::full_error(&e))?;
            signed.write(&outdir).await.map_err(|e| client::full_error(&e))?;
            Ok::<(), String>(())
        })
        .await;
        match r {
            Err(_) => Err("watchdog".into()),
            Ok(x) => x,
        }
        })
    };
    out.evals += 1;
    let mut diffs: Vec<String> = Vec::new();
    match &res {
        Err(e) if e == "watchdog" => out.inconc("watchdog"),
        Err(e) => out.viol("update-refused", format!("from_repo/sign/write of a valid repository failed: {e}")),
        Ok(()) => {
            let read = |name: &str| -> Option<J> { std::fs::read(outdir.join(name)).ok().and_then(|b| J::parse(&b).ok()) };
            let fname = |role: &str, v: u64| meta_path(spec.consistent, v, role).trim_start_matches("/metadata/").to_string();
            let new_tg = read(&fname("targets", tgv.get()));
            let new_sn = read(&fname("snapshot", snv.get()));
            let new_ts = read(&fname("timestamp", tsv.get()));
            for (role, newdoc) in [("targets", &new_tg), ("snapshot", &new_sn), ("timestamp", &new_ts)] {
                let Some(nd) = newdoc else {
                    out.viol(format!("missing-file:role={role}"), "expected metadata file not written".to_string());
                    continue;
                };
                let old = built.docs[role].at("signed");
                let new = nd.at("signed");
                // unknown top-level members
                for (k, v) in old.members() {
                    if KNOWN_TOP.contains(&k.as_str()) {
                        continue;
                    }
                    match new.get(k) {
                        None => {
                            out.viol(format!("dropped:role={role}:what=extra-member"), format!("member {k:?} of the old {role} metadata is gone"));
                            diffs.push(format!("{role}.{k} dropped"));
                        }
                        Some(nv) if !canon_eq(nv, v) => out.viol(format!("changed:role={role}:what=extra-member"), format!("member {k:?} changed")),
                        _ => {}
                    }
                }
                if spec.extra_members {
                    out.h(format!("extras-checked:{role}"));
                }
            }
            if let Some(nd) = &new_tg {
                let old = built.docs["targets"].at("signed");
                let new = nd.at("signed");
                for (name, e) in old.at("targets").members() {
                    match new.at("targets").get(name) {
                        None => out.viol("dropped:target", format!("target {name:?} is gone after the update")),
                        Some(ne) if !canon_eq(ne, e) => out.viol(
                            "changed:target-entry",
                            format!("target {name:?}: old {} new {}", String::from_utf8_lossy(&render(e, Style::Compact)), String::from_utf8_lossy(&render(ne, Style::Compact))),
                        ),
                        _ => {}
                    }
                }
                for (n, c) in &added {
                    match new.at("targets").get(n) {
                        Some(ne) if canon_eq(ne, &target_entry(c, None)) => {}
                        _ => out.viol("added-target-missing", n.clone()),
                    }
                }
                let expected_count = old.at("targets").members().len() + added.len();
                if new.at("targets").members().len() != expected_count {
                    out.viol("unexpected-targets", format!("{} targets, expected {expected_count}", new.at("targets").members().len()));
                }
                let od = old.get("delegations");
                let ndg = new.get("delegations");
                let same = match (od, ndg) {
                    (None, None) => true,
                    (Some(a), Some(b)) => canon_eq(a, b),
                    // an empty delegations object instead of none (or vice versa) is not a structural change
                    (None, Some(b)) | (Some(b), None) => b.get("roles").map_or(false, |r| r.items().is_empty()),
                };
                if !same {
                    out.viol("changed:delegation-structure", "the delegations member of targets.json differs after the update".to_string());
                }
                if new.at("version").as_u64() != Some(tgv.get()) {
                    out.viol("version-not-set:targets", "".to_string());
                }
            }
            // delegated role files: content and signatures untouched
            for dg in all_delegs(&spec) {
                let oldenv = &built.docs[dg.name.as_str()];
                match read(&fname(&dg.name, dg.version)) {
                    None => out.viol("dropped:delegated-role-file", format!("role {:?} not written", dg.name)),
                    Some(nd) => {
                        if !canon_eq(nd.at("signed"), oldenv.at("signed")) {
                            out.viol("changed:delegated-role-content", format!("role {:?}", dg.name));
                        }
                        if !canon_eq(nd.at("signatures"), oldenv.at("signatures")) {
                            out.viol("changed:delegated-role-signatures", format!("role {:?}", dg.name));
                        }
                    }
                }
                out.h("delegated-role-checked");
            }
            // snapshot must still list every delegated role at its version
            if let Some(nd) = &new_sn {
                for dg in all_delegs(&spec) {
                    let v = nd.at("signed").at("meta").get(&format!("{}.json", dg.name)).and_then(|m| m.at("version").as_u64());
                    if v != Some(dg.version) {
                        out.viol("changed:snapshot-entry-of-delegated-role", format!("role {:?}: listed {v:?}, was {}", dg.name, dg.version));
                    }
                }
            }
            // and the result must load, with every delegated role still verifying
            let ds2 = dir.join("ds2");
            std::fs::create_dir_all(&ds2).unwrap();
            let lr = w.rt.block_on(load_dir(&built.root_bytes, &outdir, &dir.join("no-targets"), &ds2, wd));
            out.evals += 1;
            match lr {
                Err(e) if e == "watchdog" => out.inconc("watchdog"),
                Err(e) => out.viol("updated-repository-unloadable", e),
                Ok(rp) => {
                    for dg in all_delegs(&spec) {
                        if rp.delegated_role(&dg.name).and_then(|r| r.targets.as_ref()).is_none() {
                            out.viol("delegated-role-lost", dg.name.clone());
                        }
                    }
                    out.h("reloaded");
                }
            }
        }
    }
    out.h(format!("added-targets={nadd}"));
    out.h(format!("consistent={}", spec.consistent));
    out.h(format!("delegation-depth={}", opts.max_depth.min(3)));
    out.fingerprint = Some(format!("{i}"));
    out.nontrivial = spec.extra_members || all_targets(&spec).iter().any(|t| t.custom.is_some());
    out.desc = Some(obj! {
        "consistent_snapshot" => spec.consistent, "unknown_members_present" => spec.extra_members,
        "delegated_roles" => J::A(all_delegs(&spec).iter().map(|d| J::S(d.name.clone())).collect()),
        "targets_before" => all_targets(&spec).len(), "targets_with_custom_data" => all_targets(&spec).iter().filter(|t| t.custom.is_some()).count(),
        "targets_added" => nadd,
        "update" => match &res { Ok(()) => "ok".to_string(), Err(e) => e.clone() },
        "differences" => J::A(diffs.into_iter().map(J::S).collect()),
    });
    w.cleanup(&dir);
    out
}

pub fn run(cfg: &Cfg) -> i32 {
    let start = Instant::now();
    let _ = crate::keys::pool();
    // the command line leg needs the tuftool binary built from /repo's working tree
    if let Err(e) = crate::props::c20::build_tuftool() {
        println!("BROKEN-HARNESS: {e}");
        return 2;
    }
    let n = cfg.tier.pick(1_200u64, 20_000);
    let budget = cfg.tier.pick(Duration::from_secs(400), Duration::from_secs(2400));
    let ev = par_run(cfg, n, budget, |w, i| Some(run_case(w, i)));
    let required = vec![
        "extras-checked:targets".into(),
        "extras-checked:snapshot".into(),
        "extras-checked:timestamp".into(),
        "delegated-role-checked".into(),
        "reloaded".into(),
        "added-targets=0".into(),
        "added-targets=3".into(),
        "consistent=true".into(),
        "consistent=false".into(),
        "delegation-depth=3".into(),
        "via=library".into(),
        "orphan-delegation-key".into(),
        "via=tuftool-update".into(),
    ];
    finish(
        cfg,
        ev,
        Finish {
            level: "exploration",
            rule: "seeded random repositories (as for C19, with unknown members — string, integer, nested object with array — at the top level of every role's signed portion and custom data on a third of the targets) are loaded by the real client, passed through RepositoryEditor::from_repo, given new versions/expirations and 0..3 added targets, signed and written; old and new metadata are compared member by member (every old target entry, the delegations object, every unknown top-level member of targets/snapshot/timestamp, every delegated role file's signed portion and signature list, the snapshot entries of delegated roles) and the result is re-loaded through the client. One evaluation = one load / update / re-load. Non-trivial = unknown members or custom data present.",
            assumptions: vec!["comparison on the canonical form; target names are URL-inert here (see C10/C19 for the other classes)".into()],
            required_hist: required,
            min_evaluations: 1000,
        },
        start.elapsed(),
    )
}
