//! C03 — rollback protection across update cycles sharing a datastore.

use crate::client::LoadOpts;
use crate::forge::*;
use crate::hist::*;
use crate::json::J;
use crate::obj;
use crate::rng::Rng;
use crate::run::*;
use std::time::{Duration, Instant};

#[derive(Clone, Debug)]
struct Cyc {
    served: Served,
    /// root configurations published (in order) before this cycle, with a label
    publish: Vec<(RootKeys, String)>,
}

#[derive(Clone, Debug)]
struct Case {
    kind: &'static str,
    consistent: bool,
    cycles: Vec<Cyc>,
}

fn base_cfg() -> RootKeys {
    RootKeys {
        root: RoleKeys::one(0),
        timestamp: RoleKeys { keys: vec![1, 4], threshold: 1 },
        snapshot: RoleKeys { keys: vec![2, 5], threshold: 1 },
        targets: RoleKeys { keys: vec![3, 6], threshold: 1 },
    }
}

fn tuple_of(idx: u64) -> Served {
    // idx in 0..81 -> (ts, snap, listed, tg) each in 1..=3
    let a = idx % 3 + 1;
    let b = (idx / 3) % 3 + 1;
    let c = (idx / 9) % 3 + 1;
    let d = (idx / 27) % 3 + 1;
    Served::new(a, b, Some(c), d)
}

fn role_mut<'a>(cfg: &'a mut RootKeys, r: usize) -> &'a mut RoleKeys {
    match r {
        0 => &mut cfg.timestamp,
        1 => &mut cfg.snapshot,
        _ => &mut cfg.targets,
    }
}
const ROLE_NAMES: [&str; 3] = ["timestamp", "snapshot", "targets"];

fn rotate(r: &mut Rng, cur: &RootKeys, history: &[RootKeys]) -> (RootKeys, String) {
    let mut next = cur.clone();
    let which = r.usize(3);
    let spare = [7usize, 8, 9, 10, 11, 12, 13, 16, 17];
    let label;
    match r.usize(5) {
        0 => {
            // replace all keys of the role (disjoint)
            let k = *r.pick(&spare);
            *role_mut(&mut next, which) = RoleKeys { keys: vec![k], threshold: 1 };
            label = format!("{}:replace-keys", ROLE_NAMES[which]);
        }
        1 => {
            let k = *r.pick(&spare);
            let role = role_mut(&mut next, which);
            if !role.keys.contains(&k) {
                role.keys.push(k);
            }
            label = format!("{}:add-key", ROLE_NAMES[which]);
        }
        2 => {
            let role = role_mut(&mut next, which);
            if role.keys.len() >= 2 {
                role.threshold = if role.threshold == 1 { 2 } else { 1 };
                label = format!("{}:threshold-change", ROLE_NAMES[which]);
            } else {
                let k = *r.pick(&spare);
                // (never list one key twice: a role [k, k] with threshold 2 cannot be met by anyone)
                if !role.keys.contains(&k) {
                    role.keys.push(k);
                }
                label = format!("{}:add-key", ROLE_NAMES[which]);
            }
        }
        3 => {
            // rotate back to the configuration of two roots ago (if any)
            if history.len() >= 2 {
                next = history[history.len() - 2].clone();
                label = "rotate-back".to_string();
            } else {
                let role = role_mut(&mut next, which);
                role.keys.remove(0);
                if role.keys.is_empty() {
                    role.keys.push(*r.pick(&spare));
                }
                role.threshold = 1;
                label = format!("{}:remove-key", ROLE_NAMES[which]);
            }
        }
        _ => {
            // root that changes nothing for the online roles
            label = "no-online-change".to_string();
        }
    }
    (next, label)
}

fn gen_cases(cfg: &Cfg) -> Vec<Case> {
    let mut v = Vec::new();
    // all two-cycle histories
    for consistent in [false, true] {
        for a in 0..81 {
            for b in 0..81 {
                v.push(Case {
                    kind: "exhaustive-2",
                    consistent,
                    cycles: vec![
                        Cyc { served: tuple_of(a), publish: vec![] },
                        Cyc { served: tuple_of(b), publish: vec![] },
                    ],
                });
            }
        }
    }
    // templates: [hi, lo, lo], [hi, lo, hi], [hi, lo, lo, hi] for every lowering of hi
    for hi in [3u64, 2] {
        for low in 1..81u64 {
            let d = [low % 3, (low / 3) % 3, (low / 9) % 3, (low / 27) % 3];
            let comp = |k: usize| hi.saturating_sub(d[k]).max(1);
            let lo = Served::new(comp(0), comp(1), Some(comp(2)), comp(3));
            let hi_s = Served::new(hi, hi, Some(hi), hi);
            if lo.tuple() == hi_s.tuple() {
                continue;
            }
            let mk = |seq: Vec<&Served>, consistent: bool| Case {
                kind: "template",
                consistent,
                cycles: seq
                    .into_iter()
                    .map(|s| Cyc { served: s.clone(), publish: vec![] })
                    .collect(),
            };
            let c = low % 2 == 0;
            v.push(mk(vec![&hi_s, &lo, &lo], c));
            v.push(mk(vec![&hi_s, &lo, &hi_s], !c));
            v.push(mk(vec![&hi_s, &lo, &lo, &hi_s], c));
        }
    }
    // all three-cycle histories (thorough)
    if cfg.tier == Tier::Thorough && std::env::var("C03_SKIP_EXHAUSTIVE3").is_err() {
        for a in 0..81 {
            for b in 0..81 {
                for c in 0..81 {
                    v.push(Case {
                        kind: "exhaustive-3",
                        consistent: (a + b + c) % 2 == 0,
                        cycles: vec![
                            Cyc { served: tuple_of(a), publish: vec![] },
                            Cyc { served: tuple_of(b), publish: vec![] },
                            Cyc { served: tuple_of(c), publish: vec![] },
                        ],
                    });
                }
            }
        }
    }
    // sampled histories with 2..4 cycles, root publications and dropped entries
    let nrand = cfg.tier.pick(20_000u64, 200_000);
    for i in 0..nrand {
        let mut r = Rng::for_case(cfg.seed, "C03", i);
        let n = 2 + r.usize(3);
        let mut cycles = Vec::new();
        let mut hist_cfgs = vec![base_cfg()];
        for k in 0..n {
            let mut s = tuple_of(r.below(81));
            // bias towards internally consistent repositories
            if r.chance(1, 2) {
                s.listed = Some(s.tg);
            }
            if r.chance(1, 25) {
                s.listed = None;
            }
            let mut publish = Vec::new();
            if k > 0 && r.chance(2, 5) {
                let npub = 1 + r.usize(2);
                for _ in 0..npub {
                    let cur = hist_cfgs.last().unwrap().clone();
                    let (next, label) = rotate(&mut r, &cur, &hist_cfgs);
                    hist_cfgs.push(next.clone());
                    publish.push((next, label));
                }
            }
            cycles.push(Cyc { served: s, publish });
        }
        v.push(Case {
            kind: "sampled",
            consistent: r.bool(),
            cycles,
        });
    }
    // the serialised size of every role varies independently of its version (an extra signed
    // member of 0 or 37 bytes), so that stored files shrink and grow along a history
    for (ci, case) in v.iter_mut().enumerate() {
        for (k, cyc) in case.cycles.iter_mut().enumerate() {
            let mut r = Rng::new(ci as u64 * 131 + k as u64);
            cyc.served.pad = [37 * r.usize(2), 37 * r.usize(2), 37 * r.usize(2)];
        }
    }
    // templates [mid (long files), hi (short files), lowering of hi]: a newer, SHORTER file
    // replaces the stored one before an older version is replayed
    for low in 1..81u64 {
        let d = [low % 3, (low / 3) % 3, (low / 9) % 3, (low / 27) % 3];
        let comp = |k: usize| 3u64.saturating_sub(d[k]).max(1);
        let mid = Served::new(2, 2, Some(2), 2).with_pad([37, 37, 37]);
        let hi = Served::new(3, 3, Some(3), 3);
        let lo = Served::new(comp(0), comp(1), Some(comp(2)), comp(3)).with_pad([37 * (low as usize % 2), 0, 37]);
        v.push(Case {
            kind: "template",
            consistent: low % 2 == 1,
            cycles: vec![
                Cyc { served: mid, publish: vec![] },
                Cyc { served: hi, publish: vec![] },
                Cyc { served: lo, publish: vec![] },
            ],
        });
    }
    v
}

fn changed(cfgs: &[RootKeys], roles: &[usize], ri: u64, rj: u64) -> bool {
    // any root k in (ri, rj] whose configuration of one of `roles` differs from root k-1's
    let get = |c: &RootKeys, r: usize| -> (Vec<usize>, u64) {
        let rk = match r {
            0 => &c.timestamp,
            1 => &c.snapshot,
            _ => &c.targets,
        };
        let mut k = rk.keys.clone();
        k.sort_unstable();
        (k, rk.threshold)
    };
    for k in (ri + 1)..=rj {
        let cur = &cfgs[(k - 1) as usize];
        let prev = &cfgs[(k - 2) as usize];
        for r in roles {
            if get(cur, *r) != get(prev, *r) {
                return true;
            }
        }
    }
    false
}

fn run_case(w: &mut Worker, c: &Case) -> CaseOut {
    let mut out = CaseOut::default();
    let dir = w.case_dir();
    let ds = dir.join("ds");
    std::fs::create_dir_all(&ds).unwrap();
    let mut ep = Epochs::single(base_cfg(), c.consistent);
    let shipped = ep.root_bytes(1);
    let mut obs: Vec<CycleObs> = Vec::new();
    let mut published_at: Vec<u64> = Vec::new();
    for cyc in &c.cycles {
        for (cfg, _) in &cyc.publish {
            ep.push(cfg.clone());
        }
        let published = ep.cfgs.len() as u64;
        published_at.push(published);
        let files = cycle_files(&ep, published, &cyc.served);
        let (o, _) = run_cycle(w, &shipped, files, &ds, &LoadOpts::default());
        out.evals += 1;
        obs.push(o);
    }
    if obs.iter().any(|o| o.watchdog) {
        out.inconc("watchdog");
    }
    // self-check of the recording: a successful cycle must report the versions that were served
    for (k, o) in obs.iter().enumerate() {
        let s = &c.cycles[k].served;
        if o.ok && (o.ts != s.ts || o.snap != s.snap || o.tg != s.tg || o.listed != s.listed) {
            out.viol(
                "reported-versions-differ-from-served",
                format!("cycle {k}: served {} observed ts={} snap={} listed={:?} tg={}", s.tuple(), o.ts, o.snap, o.listed, o.tg),
            );
        }
        if o.ok && s.listed != Some(s.tg) {
            // that is C05's subject (mix-and-match), recorded here as an observation only
            out.obs("inconsistent-repository-accepted(C05)");
        }
    }
    // rule 1: pairwise rollback
    let ncyc = c.cycles.len();
    for i in 0..ncyc {
        for j in (i + 1)..ncyc {
            if !(obs[i].ok && obs[j].ok) {
                continue;
            }
            let (ri, rj) = (obs[i].root, obs[j].root);
            let pairs: [(&str, u64, u64, &[usize]); 3] = [
                ("timestamp", obs[i].ts, obs[j].ts, &[0, 1]),
                ("snapshot", obs[i].snap, obs[j].snap, &[0, 1]),
                ("targets", obs[i].tg, obs[j].tg, &[2]),
            ];
            // cause class: the client always starts from the SHIPPED root (version 1); when the
            // online key lists of the shipped root differ from those of the root trusted in cycle j,
            // the rotation lies between shipped and trusted root, not between the two cycles
            let shipped_cfg = &ep.cfgs[0];
            let final_cfg = &ep.cfgs[(rj - 1) as usize];
            let cause = if shipped_cfg.timestamp.keys != final_cfg.timestamp.keys
                || shipped_cfg.snapshot.keys != final_cfg.snapshot.keys
            {
                "shipped-root-predates-online-key-rotation"
            } else {
                "no-online-key-change-since-shipped-root"
            };
            for (name, vi, vj, roles) in pairs {
                if vj < vi && !(rj > ri && changed(&ep.cfgs, roles, ri, rj)) {
                    let cause = if name == "targets" { "stored-targets" } else { cause };
                    out.viol(
                        format!("rollback-accepted:role={name}:{cause}"),
                        format!("cycle {i} succeeded with {name} v{vi}, later cycle {j} succeeded with v{vj}; trusted roots {ri}->{rj}, shipped root 1, {ncyc} cycles"),
                    );
                }
            }
            let li = obs[i].listed.unwrap_or(0);
            let lj = obs[j].listed.unwrap_or(0);
            if lj < li && !(rj > ri && changed(&ep.cfgs, &[0, 1, 2], ri, rj)) {
                out.viol(
                    format!("rollback-accepted:role=snapshot-listed-targets:{cause}"),
                    format!("cycle {i} succeeded with snapshot listing targets v{li}, later cycle {j} with v{lj}; trusted roots {ri}->{rj}"),
                );
            }
        }
    }
    // rule 2: moving forward is never refused
    let mut max = [0u64; 4];
    for (k, cyc) in c.cycles.iter().enumerate() {
        let s = &cyc.served;
        let cur = [s.ts, s.snap, s.listed.unwrap_or(0), s.tg];
        let consistent_repo = s.listed == Some(s.tg);
        let forward = (0..4).all(|x| cur[x] >= max[x]);
        if consistent_repo && forward && !obs[k].ok && !obs[k].watchdog {
            let which = if k == 0 { "first-cycle" } else { "later-cycle" };
            out.viol(
                format!("forward-refused:{which}"),
                format!("cycle {k} served {} >= everything served before {:?} but failed: {}", s.tuple(), max, obs[k].err_text),
            );
        }
        if consistent_repo && forward {
            out.h("forward-cycle");
        }
        for x in 0..4 {
            max[x] = max[x].max(cur[x]);
        }
    }
    // classification
    let mut dec = false;
    for k in 1..ncyc {
        let (a, b) = (&c.cycles[k - 1].served, &c.cycles[k].served);
        if b.ts < a.ts || b.snap < a.snap || b.tg < a.tg || b.listed.unwrap_or(0) < a.listed.unwrap_or(0) {
            dec = true;
        }
    }
    let failed_between = obs.iter().take(ncyc - 1).any(|o| !o.ok);
    out.nontrivial = dec || failed_between;
    out.h(format!("kind={}", c.kind));
    out.h(format!("cycles={ncyc}"));
    if failed_between {
        out.h("intervening-failed-cycle");
    }
    if obs.iter().filter(|o| o.ok).count() >= 2 {
        out.h("two-or-more-successful-cycles");
    }
    for cyc in &c.cycles {
        for (_, l) in &cyc.publish {
            out.h(format!("publish={l}"));
        }
        if cyc.served.listed.is_none() {
            out.h("targets-entry-dropped");
        }
    }
    for o in &obs {
        if !o.ok {
            out.h(format!("refused={}", o.err_class));
        }
    }
    out.fingerprint = Some(format!(
        "{}|{:?}|{:?}",
        c.consistent,
        c.cycles.iter().map(|x| x.served.tuple()).collect::<Vec<_>>(),
        c.cycles
            .iter()
            .map(|x| x.publish.iter().map(|p| p.1.clone()).collect::<Vec<_>>())
            .collect::<Vec<_>>()
    ));
    out.desc = Some(obj! {
        "kind" => c.kind,
        "consistent_snapshot" => c.consistent,
        "history" => J::A(c.cycles.iter().zip(obs.iter()).enumerate().map(|(k,(cyc,o))| obj!{
            "cycle" => k,
            "roots_published_before" => J::A(cyc.publish.iter().map(|p| J::S(p.1.clone())).collect()),
            "newest_root" => published_at[k],
            "online_roles_of_newest_root(keys/threshold: timestamp, snapshot, targets)" => {
                let c = &ep.cfgs[(published_at[k] - 1) as usize];
                format!("{:?}/{} {:?}/{} {:?}/{}", c.timestamp.keys, c.timestamp.threshold, c.snapshot.keys, c.snapshot.threshold, c.targets.keys, c.targets.threshold)
            },
            "served(ts,snap,listed,targets)" => cyc.served.tuple(),
            "extra_member_bytes(ts,snap,targets)" => format!("{:?}", cyc.served.pad),
            "observed" => o.to_j(),
        }).collect()),
    });
    w.cleanup(&dir);
    out
}

pub fn run(cfg: &Cfg) -> i32 {
    let start = Instant::now();
    let _ = crate::keys::pool();
    let cases = gen_cases(cfg);
    let budget = cfg.tier.pick(Duration::from_secs(300), Duration::from_secs(2400));
    let mut ev = par_run(cfg, cases.len() as u64, budget, |w, i| cases.get(i as usize).map(|c| run_case(w, c)));
    ev.exhaustive = false;
    ev.extra.push((
        "two_cycle_space_exhaustive".into(),
        J::Bool(!ev.inconclusive.contains_key("wall-budget-reached")),
    ));
    ev.extra.push((
        "three_cycle_space_exhaustive".into(),
        J::Bool(cfg.tier == Tier::Thorough && !ev.inconclusive.contains_key("wall-budget-reached")),
    ));
    let mut required: Vec<String> = vec![
        "kind=exhaustive-2".into(),
        "kind=template".into(),
        "kind=sampled".into(),
        "cycles=4".into(),
        "intervening-failed-cycle".into(),
        "two-or-more-successful-cycles".into(),
        "forward-cycle".into(),
        "publish=rotate-back".into(),
        "publish=timestamp:replace-keys".into(),
        "publish=targets:threshold-change".into(),
        "refused=OlderMetadata".into(),
        "targets-entry-dropped".into(),
    ];
    if cfg.tier == Tier::Thorough {
        required.push("kind=exhaustive-3".into());
    }
    finish(
        cfg,
        ev,
        Finish {
            level: "exploration",
            rule: "histories of update cycles over one datastore; each cycle serves genuinely signed (timestamp, snapshot, snapshot-listed targets, targets) versions in 1..3: all 81^2 two-cycle histories x both consistent-snapshot settings, templates [hi,lo,lo]/[hi,lo,hi]/[hi,lo,lo,hi] for every lowering, all 81^3 three-cycle histories (thorough), and seeded histories of 2..4 cycles with root publications between cycles (replace/add/remove key, threshold change, rotate-back, unrelated root) and dropped targets entries. Offline checker: pairwise rollback rule with the key-change exemption read permissively, and forward-never-refused rule against the maximum ever served. Fingerprint = (consistent, served tuples, publication labels); non-trivial = some version decreases between consecutive cycles or a cycle fails in between.",
            assumptions: vec![
                "exemption read permissively: timestamp/snapshot exempt if either role's keys or threshold changed in a root in (root_i, root_j]; snapshot-listed targets version exempt if any of the three changed".into(),
                "versions 1..3, at most 4 cycles".into(),
            ],
            required_hist: required,
            min_evaluations: 10_000,
        },
        start.elapsed(),
    )
}
