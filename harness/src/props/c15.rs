//! C15 — stored trust state survives crashes and I/O failures of the client.
//! One update cycle runs in a child process (`c15_client`); strace injects a fault into, or kills
//! the process at, every file-system call it issues on the datastore directory.

use crate::forge::*;
use crate::json::J;
use crate::obj;
use crate::run::*;
use std::collections::BTreeMap;
use std::path::{Path, PathBuf};
use std::process::{Command, Stdio};
use std::time::{Duration, Instant};

const CLIENT: &str = "/verif/.cache/target/release/c15_client";
const TRACE_SET: &str = "openat,write,pwrite64,rename,renameat,renameat2,unlink,unlinkat,ftruncate,fsync,fdatasync,link,linkat";

/// (timestamp, snapshot, targets) versions of the genuine repository states
const STATES: [(u64, u64, u64); 4] = [(1, 1, 1), (2, 1, 1), (3, 2, 1), (4, 3, 2)];

#[derive(Clone, Debug)]
struct Scenario {
    name: &'static str,
    consistent: bool,
    delegated: bool,
    /// the interrupted cycle sees a new root that rotates the timestamp keys
    rotation: bool,
    trusted: usize,
    during: usize,
}

fn scenarios(tier: Tier) -> Vec<Scenario> {
    let mut v = vec![
        Scenario { name: "recheck-same-state", consistent: false, delegated: false, rotation: false, trusted: 1, during: 1 },
        Scenario { name: "upgrade-timestamp-only", consistent: false, delegated: false, rotation: false, trusted: 1, during: 2 },
    ];
    if tier == Tier::Thorough {
        v.extend([
            Scenario { name: "upgrade-all-roles", consistent: true, delegated: false, rotation: false, trusted: 2, during: 3 },
            Scenario { name: "recheck-consistent", consistent: true, delegated: false, rotation: false, trusted: 3, during: 3 },
            Scenario { name: "upgrade-with-delegated-role", consistent: false, delegated: true, rotation: false, trusted: 1, during: 2 },
            Scenario { name: "upgrade-delegated-consistent", consistent: true, delegated: true, rotation: false, trusted: 2, during: 3 },
            Scenario { name: "key-rotation-cycle", consistent: false, delegated: false, rotation: true, trusted: 2, during: 3 },
            Scenario { name: "first-upgrade", consistent: false, delegated: false, rotation: false, trusted: 0, during: 1 },
        ]);
    } else {
        v.push(Scenario { name: "key-rotation-cycle", consistent: false, delegated: false, rotation: true, trusted: 2, during: 3 });
    }
    v
}

fn state_spec(sc: &Scenario, k: usize, rotated: bool) -> RepoSpec {
    let (ts, sn, tg) = STATES[k];
    let mut keys = RootKeys::simple();
    if rotated {
        keys.timestamp = RoleKeys::one(8);
    }
    RepoSpec {
        consistent: sc.consistent,
        root_version: if rotated { 2 } else { 1 },
        ts_version: ts,
        snap_version: sn,
        tg_version: tg,
        keys,
        delegations: if sc.delegated {
            let mut d = DelegSpec::new("role-a", 5, Paths::Patterns(vec!["d/*".into()]));
            d.targets = vec![TargetSpec::new("d/x.bin", b"delegated")];
            vec![d]
        } else {
            vec![]
        },
        ..RepoSpec::default()
    }
}

fn write_repo(dir: &Path, files: &BTreeMap<String, Vec<u8>>) {
    for (k, v) in files {
        let p = dir.join(k.trim_start_matches('/'));
        std::fs::create_dir_all(p.parent().unwrap()).unwrap();
        std::fs::write(p, v).unwrap();
    }
}

fn copy_dir(from: &Path, to: &Path) {
    let _ = std::fs::remove_dir_all(to);
    std::fs::create_dir_all(to).unwrap();
    if let Ok(rd) = std::fs::read_dir(from) {
        for e in rd.flatten() {
            if e.path().is_file() {
                let _ = std::fs::copy(e.path(), to.join(e.file_name()));
            }
        }
    }
}

struct RunOut {
    exit: Option<i32>,
    stdout: String,
    log: String,
}

fn run_client(root: &Path, repo: &Path, ds: &Path, strace: Option<(&Path, Option<String>)>) -> RunOut {
    let mut cmd;
    match &strace {
        Some((log, inject)) => {
            cmd = Command::new("strace");
            cmd.args(["-f", "-y", "-s", "0", "-o", log.to_str().unwrap(), "-e", &format!("trace={TRACE_SET}")]);
            if let Some(i) = inject {
                cmd.args(["-e", &format!("inject={i}")]);
            }
            cmd.arg(CLIENT);
        }
        None => cmd = Command::new(CLIENT),
    }
    cmd.args([root.to_str().unwrap(), repo.to_str().unwrap(), ds.to_str().unwrap()]);
    // error values of the library capture (and symbolise) a backtrace when this is set: seconds per process
    cmd.env("RUST_BACKTRACE", "0").env("RUST_LIB_BACKTRACE", "0");
    let t0 = Instant::now();
    let o = cmd.stdin(Stdio::null()).stderr(Stdio::null()).output();
    if std::env::var("C15_TIMING").is_ok() {
        eprintln!("c15 run strace={} {:?}", strace.is_some(), t0.elapsed());
    }
    match o {
        Err(e) => RunOut { exit: None, stdout: format!("spawn failed: {e}"), log: String::new() },
        Ok(o) => RunOut {
            exit: o.status.code(),
            stdout: String::from_utf8_lossy(&o.stdout).to_string(),
            log: strace.map(|(l, _)| std::fs::read_to_string(l).unwrap_or_default()).unwrap_or_default(),
        },
    }
}

#[derive(Clone, Debug)]
struct DsCall {
    tid: String,
    syscall: String,
    /// ordinal of this call among the calls of the same syscall made by this thread (1-based)
    ordinal: usize,
    /// short description: syscall(file)
    what: String,
}

/// Parse an strace -f -y log: datastore calls in order, and per (tid, syscall) totals.
fn parse_trace(log: &str, ds: &str) -> (Vec<DsCall>, BTreeMap<(String, String), usize>) {
    let mut counts: BTreeMap<(String, String), usize> = BTreeMap::new();
    let mut calls = Vec::new();
    for line in log.lines() {
        let Some((tid, rest)) = line.split_once(' ') else { continue };
        let rest = rest.trim_start();
        if rest.starts_with("<...") || rest.starts_with("+++") || rest.starts_with("---") {
            continue;
        }
        let Some(par) = rest.find('(') else { continue };
        let sc = &rest[..par];
        if !sc.chars().all(|c| c.is_ascii_alphanumeric() || c == '_') {
            continue;
        }
        let c = counts.entry((tid.to_string(), sc.to_string())).or_insert(0);
        *c += 1;
        if rest.contains(ds) {
            // file name(s) below the datastore directory
            let mut names = Vec::new();
            let mut idx = 0;
            while let Some(p) = rest[idx..].find(ds) {
                let st = idx + p + ds.len();
                let tail: String = rest[st..].chars().take_while(|ch| !matches!(ch, '"' | '>' | ',' | ')')).collect();
                names.push(tail.trim_start_matches('/').to_string());
                idx = st;
            }
            names.dedup();
            // temp file names are random: normalise
            let names: Vec<String> = names.into_iter().map(|n| if n.contains(".tmp") && !n.ends_with(".json.tmp") { "<tmp>".to_string() } else { n }).collect();
            calls.push(DsCall {
                tid: tid.to_string(),
                syscall: sc.to_string(),
                ordinal: *c,
                what: format!("{sc}({})", names.join("->")),
            });
        }
    }
    (calls, counts)
}

fn result_of(o: &RunOut) -> &'static str {
    match o.exit {
        Some(0) => "ok",
        Some(3) => "refused",
        None => "killed",
        Some(_) => "other",
    }
}

fn run_scenario(w: &mut Worker, sc: &Scenario, tier: Tier) -> CaseOut {
    let mut out = CaseOut::default();
    let dir = w.case_dir();
    // repositories of all states on disk
    let mut repo_dirs: Vec<PathBuf> = Vec::new();
    let mut root1 = Vec::new();
    for k in 0..STATES.len() {
        let rotated = sc.rotation && k >= sc.during;
        let spec = state_spec(sc, k, rotated);
        let mut b = build(&spec);
        if rotated {
            // the chain: root 1 (old timestamp key) is published as well
            let spec1 = state_spec(sc, k, false);
            let r1 = build(&spec1);
            b.files.insert(meta_path(sc.consistent, 1, "root"), r1.root_bytes.clone());
        }
        if k == 0 {
            root1 = build(&state_spec(sc, 0, false)).root_bytes;
        }
        let d = dir.join(format!("repo-S{k}"));
        write_repo(&d, &b.files);
        repo_dirs.push(d);
    }
    if sc.rotation {
        // older states replayed after the rotation come with the published root chain too
        let spec_new = state_spec(sc, sc.during, true);
        let newroot = build(&spec_new).root_bytes;
        for k in 0..sc.during {
            std::fs::write(repo_dirs[k].join("metadata").join("2.root.json"), &newroot).unwrap();
        }
    }
    let root_path = dir.join("shipped-root.json");
    std::fs::write(&root_path, &root1).unwrap();
    // datastore after the earlier successful cycle(s): S0 .. S_trusted one after the other
    let ds0 = dir.join("ds0");
    std::fs::create_dir_all(&ds0).unwrap();
    for k in 0..=sc.trusted {
        // before the rotation is published, the old states do not carry root 2
        let repo = if sc.rotation && k < sc.during {
            let plain = dir.join(format!("plain-S{k}"));
            let b = build(&state_spec(sc, k, false));
            write_repo(&plain, &b.files);
            plain
        } else {
            repo_dirs[k].clone()
        };
        let o = run_client(&root_path, &repo, &ds0, None);
        out.evals += 1;
        if o.exit != Some(0) {
            out.broken = Some(format!("scenario {}: establishing cycle against S{k} failed: {}", sc.name, o.stdout));
            return out;
        }
    }
    // baseline trace of the cycle that will be interrupted
    let ds = dir.join("ds");
    copy_dir(&ds0, &ds);
    let blog = dir.join("baseline.strace");
    let base = run_client(&root_path, &repo_dirs[sc.during], &ds, Some((&blog, None)));
    out.evals += 1;
    if base.exit != Some(0) {
        out.broken = Some(format!("scenario {}: baseline cycle under strace failed: exit {:?} {}", sc.name, base.exit, base.stdout));
        return out;
    }
    let ds_str = ds.to_str().unwrap().to_string();
    let (calls, counts) = parse_trace(&base.log, &ds_str);
    if calls.is_empty() {
        out.broken = Some("no datastore system calls seen in the baseline trace".into());
        return out;
    }
    let tids: std::collections::BTreeSet<&String> = calls.iter().map(|c| &c.tid).collect();
    if tids.len() != 1 {
        out.broken = Some(format!("datastore calls issued by {} threads (expected 1)", tids.len()));
        return out;
    }
    let btid = calls[0].tid.clone();
    let mut faults: Vec<(&str, String)> = vec![("kill", "signal=SIGKILL".into()), ("ENOSPC", "error=ENOSPC".into()), ("EIO", "error=EIO".into())];
    // (A faked short write — `retval=n` — is NOT used: strace then skips the system call altogether,
    // so the kernel "reports" bytes it never wrote, which no real file system does. It made the
    // follow-ups fail on the unchanged tree and was withdrawn as an unsound fault model.)
    let _ = tier;
    let mut table: Vec<J> = Vec::new();
    let (mut hits, mut planned) = (0u64, 0u64);
    for (ci, call) in calls.iter().enumerate() {
        for (fname, fspec) in &faults {
            if *fname == "short-write" && call.syscall != "write" {
                continue;
            }
            planned += 1;
            // would another thread reach this ordinal of this syscall?
            let clash = counts.iter().any(|((tid, scn), n)| *tid != btid && *scn == call.syscall && *n >= call.ordinal);
            if clash {
                out.inconc("ordinal shared with another thread");
                continue;
            }
            copy_dir(&ds0, &ds);
            let ilog = dir.join("inject.strace");
            let _ = std::fs::remove_file(&ilog);
            let inj = format!("{}:{}:when={}", call.syscall, fspec, call.ordinal);
            let o = run_client(&root_path, &repo_dirs[sc.during], &ds, Some((&ilog, Some(inj.clone()))));
            out.evals += 1;
            // did the injection hit a datastore call? which one is read from the injected run's own log
            // (ordinals can drift by an eventfd write between runs; the label must be the real target)
            let (c2, _) = parse_trace(&o.log, &ds_str);
            let hit_call: Option<DsCall> = if *fname == "kill" {
                // the call is logged at entry, so the last datastore call of the killed process is the target
                if o.exit.is_none() { c2.last().cloned().filter(|l| l.syscall == call.syscall) } else { None }
            } else {
                let inj_line = o.log.lines().find(|l| l.contains("(INJECTED)") && l.contains(&ds_str)).map(str::to_string);
                inj_line.and_then(|l| parse_trace(&l, &ds_str).0.into_iter().next())
            };
            let hit = hit_call.is_some();
            let call = hit_call.as_ref().unwrap_or(call);
            if !hit {
                out.inconc(format!("injection missed its target ({fname})"));
                table.push(obj! {"call" => ci, "what" => call.what.as_str(), "fault" => *fname, "hit" => false});
                continue;
            }
            hits += 1;
            out.h(format!("fault={fname}"));
            out.h(format!("call={}", call.what));
            // follow-ups on copies of the post-fault datastore
            let post = dir.join("post");
            let mut fu: Vec<(String, &'static str)> = Vec::new();
            for m in 0..sc.trusted {
                copy_dir(&ds, &post);
                let r = run_client(&root_path, &repo_dirs[m], &post, None);
                out.evals += 1;
                fu.push((format!("older S{m}{:?}", STATES[m]), result_of(&r)));
                if r.exit == Some(0) {
                    out.viol(
                        format!("rollback-after-fault:fault={fname}:call={}", call.what),
                        format!("scenario {}: after {fname} at {} (#{ci}) the older state S{m}{:?} loads although S{}{:?} had been trusted: {}", sc.name, call.what, STATES[m], sc.trusted, STATES[sc.trusted], r.stdout.trim()),
                    );
                }
            }
            copy_dir(&ds, &post);
            let r = run_client(&root_path, &repo_dirs[sc.during], &post, None);
            out.evals += 1;
            fu.push((format!("current S{}{:?}", sc.during, STATES[sc.during]), result_of(&r)));
            if r.exit != Some(0) {
                out.viol(
                    format!("bricked-after-fault:fault={fname}:call={}", call.what),
                    format!("scenario {}: after {fname} at {} (#{ci}) the current repository S{} is refused: {}", sc.name, call.what, sc.during, r.stdout.trim()),
                );
            }
            if tier == Tier::Thorough && *fname == "kill" {
                // a second interruption right after the first one (same call), then the follow-ups again
                let o2 = run_client(&root_path, &repo_dirs[sc.during], &ds, Some((&ilog, Some(inj.clone()))));
                out.evals += 1;
                if o2.exit.is_none() {
                    copy_dir(&ds, &post);
                    let r = run_client(&root_path, &repo_dirs[sc.during], &post, None);
                    out.evals += 1;
                    if r.exit != Some(0) {
                        out.viol(format!("bricked-after-fault:fault=double-kill:call={}", call.what), r.stdout.trim().to_string());
                    }
                    for m in 0..sc.trusted {
                        copy_dir(&ds, &post);
                        let r = run_client(&root_path, &repo_dirs[m], &post, None);
                        out.evals += 1;
                        if r.exit == Some(0) {
                            out.viol(format!("rollback-after-fault:fault=double-kill:call={}", call.what), r.stdout.trim().to_string());
                        }
                    }
                    out.h("double-interruption");
                }
            }
            table.push(obj! {"call" => ci, "what" => call.what.as_str(), "fault" => *fname, "hit" => true,
                "interrupted_cycle" => result_of(&o),
                "follow_ups" => J::A(fu.into_iter().map(|(a, b)| J::S(format!("{a}: {b}"))).collect())});
        }
    }
    if (hits as f64) < 0.9 * planned as f64 {
        out.broken = Some(format!("scenario {}: only {hits} of {planned} planned injections hit their target", sc.name));
    }
    out.h(format!("scenario={}", sc.name));
    out.fingerprint = Some(sc.name.to_string());
    out.nontrivial = true;
    out.desc = Some(obj! {
        "scenario" => sc.name, "consistent_snapshot" => sc.consistent, "delegated_role" => sc.delegated, "key_rotation" => sc.rotation,
        "trusted_before" => format!("S{}{:?}", sc.trusted, STATES[sc.trusted]), "interrupted_cycle_against" => format!("S{}{:?}", sc.during, STATES[sc.during]),
        "datastore_calls_in_baseline" => J::A(calls.iter().map(|c| J::S(format!("{} [thread ordinal {}]", c.what, c.ordinal))).collect()),
        "injections_planned" => planned, "injections_hit" => hits,
        "coverage_table" => J::A(table),
    });
    if std::env::var("C15_KEEP").is_ok() {
        let keep = PathBuf::from(format!("/dev/shm/c15-keep-{}", sc.name));
        let _ = std::fs::remove_dir_all(&keep);
        let _ = Command::new("cp").args(["-r", dir.to_str().unwrap(), keep.to_str().unwrap()]).status();
    }
    w.cleanup(&dir);
    out
}

pub fn run(cfg: &Cfg) -> i32 {
    let start = Instant::now();
    let _ = crate::keys::pool();
    if Command::new("strace").arg("-V").stdout(Stdio::null()).stderr(Stdio::null()).status().is_err() {
        println!("BROKEN-HARNESS: strace not available");
        return 2;
    }
    let scs = scenarios(cfg.tier);
    let budget = cfg.tier.pick(Duration::from_secs(600), Duration::from_secs(3000));
    let mut ev = par_run(cfg, scs.len() as u64, budget, |w, i| scs.get(i as usize).map(|s| run_scenario(w, s, w.cfg.tier)));
    // every (scenario, call, fault) that hit is a distinct non-trivial case
    let distinct: u64 = ev.hist.iter().filter(|(k, _)| k.starts_with("fault=")).map(|(_, v)| *v).sum();
    for k in 0..distinct {
        ev.fingerprints.insert(crate::rng::fnv(&format!("hit-{k}")));
    }
    ev.extra.push(("injected_runs_that_hit_their_datastore_call".into(), J::U(distinct)));
    let mut required: Vec<String> = vec!["fault=kill".into(), "fault=ENOSPC".into(), "fault=EIO".into()];
    for s in &scs {
        required.push(format!("scenario={}", s.name));
    }
    finish(
        cfg,
        ev,
        Finish {
            level: "fault_enumeration",
            rule: "one update cycle of the real client in a child process (all datastore I/O on one thread); a baseline strace (-f -y) lists every openat/write/rename/unlink/... whose path or fd lies in the datastore directory; for EVERY such call and every fault in {SIGKILL at entry, ENOSPC, EIO (+ a second kill at the same call in thorough)} the pre-cycle datastore is restored and the cycle re-run with `strace -e inject=<syscall>:<fault>:when=<per-thread ordinal>`; the hit is verified from the injected run's own log. Follow-ups in fresh processes on copies of the post-fault datastore: every genuine older state must be refused, the current state must load. Scenarios: re-check of the trusted state, timestamp-only upgrade, all-roles upgrade, consistent snapshots, delegated role, key-rotation cycle. One evaluation = one client process. distinct_nontrivial = injected runs that verifiably hit a datastore call.",
            assumptions: vec![
                "process death and failing system calls only; power loss (un-fsynced data) is not simulated".into(),
                "a kill 'immediately after' call k is realised as a kill at entry of call k+1".into(),
                "after a key rotation, older states are replayed together with the published root chain".into(),
            ],
            required_hist: required,
            min_evaluations: 100,
        },
        start.elapsed(),
    )
}
