//! C02 — root rotation follows an unbroken, doubly-signed, forward-only chain.

use crate::client::{self, LoadOpts};
use crate::forge::*;
use crate::json::{render, Style, J};
use crate::keys::{key_of, Alg, N_EC, N_ED, N_RSA};
use crate::memtransport::MemTransport;
use crate::obj;
use crate::rng::Rng;
use crate::run::*;
use std::collections::BTreeSet;
use std::time::{Duration, Instant};

#[derive(Clone, Copy, Debug, PartialEq, Eq)]
enum Break {
    None,
    OnlyOld,
    OnlyNew,
    ShortOld,
    ShortNew,
    VerLower,
    VerEqual,
    VerSkip,
    Unparsable,
    /// file absent although the following one exists
    Missing,
}

#[derive(Clone, Debug)]
struct RootFile {
    /// version in the file name
    name_version: u64,
    present: bool,
    parsable: bool,
    /// version field inside the document
    ver_field: u64,
    cfg: RootKeys,
    signers: Vec<usize>,
    rot_label: String,
}

#[derive(Clone, Debug)]
struct Case {
    shipped: u64,
    shipped_cfg: RootKeys,
    files: Vec<RootFile>,
    brk: Break,
    brk_hop: usize,
    /// version of the root whose online keys sign the top-level metadata
    epoch: u64,
    epoch_cfg: RootKeys,
    consistent: bool,
}

fn pool_pick(r: &mut Rng, n: usize, alg: Option<Alg>, avoid: &[usize]) -> Vec<usize> {
    let mut v = Vec::new();
    let mut guard = 0;
    while v.len() < n && guard < 200 {
        guard += 1;
        let k = match alg {
            Some(a) => key_of(a, r.usize(12)),
            None => r.usize(N_ED + N_EC + N_RSA),
        };
        if !v.contains(&k) && !avoid.contains(&k) {
            v.push(k);
        }
    }
    v
}

fn rotate_role(r: &mut Rng, old: &RoleKeys) -> (RoleKeys, &'static str) {
    match r.usize(7) {
        0 | 1 => (old.clone(), "same"),
        2 => {
            let n = 1 + r.usize(3);
            let keys = pool_pick(r, n, None, &old.keys);
            let t = 1 + r.below(keys.len() as u64);
            (RoleKeys { keys, threshold: t }, "disjoint")
        }
        3 => {
            // keep one key, add one or two new ones
            let keep = *r.pick(&old.keys);
            let mut keys = vec![keep];
            let extra = 1 + r.usize(2);
            keys.extend(pool_pick(r, extra, None, &old.keys));
            let t = 1 + r.below(keys.len() as u64);
            (RoleKeys { keys, threshold: t }, "overlap")
        }
        4 => {
            // threshold up (add a key if necessary)
            let mut keys = old.keys.clone();
            if old.threshold as usize >= keys.len() {
                keys.extend(pool_pick(r, 1, None, &old.keys));
            }
            (
                RoleKeys {
                    threshold: old.threshold + 1,
                    keys,
                },
                "threshold-up",
            )
        }
        5 => (
            RoleKeys {
                keys: old.keys.clone(),
                threshold: old.threshold.saturating_sub(1).max(1),
            },
            if old.threshold > 1 { "threshold-down" } else { "same" },
        ),
        _ => {
            let alg = *r.pick(&[Alg::Ecdsa, Alg::Rsa, Alg::Ed25519]);
            let n = 1 + r.usize(2);
            let keys = pool_pick(r, n, Some(alg), &old.keys);
            let t = 1 + r.below(keys.len() as u64);
            (RoleKeys { keys, threshold: t }, "algorithm-change")
        }
    }
}

fn rotate_cfg(r: &mut Rng, old: &RootKeys) -> (RootKeys, String) {
    let (root, l0) = rotate_role(r, &old.root);
    let mut labels = vec![format!("root:{l0}")];
    let mut rot = |r: &mut Rng, k: &RoleKeys, name: &str, labels: &mut Vec<String>| -> RoleKeys {
        if r.chance(1, 3) {
            let (n, l) = rotate_role(r, k);
            labels.push(format!("{name}:{l}"));
            n
        } else {
            k.clone()
        }
    };
    let timestamp = rot(r, &old.timestamp, "timestamp", &mut labels);
    let snapshot = rot(r, &old.snapshot, "snapshot", &mut labels);
    let targets = rot(r, &old.targets, "targets", &mut labels);
    (
        RootKeys {
            root,
            timestamp,
            snapshot,
            targets,
        },
        labels.join(","),
    )
}

fn first_n(k: &RoleKeys) -> Vec<usize> {
    k.keys.iter().take(k.threshold as usize).copied().collect()
}

fn union(a: &[usize], b: &[usize]) -> Vec<usize> {
    let mut v = a.to_vec();
    for x in b {
        if !v.contains(x) {
            v.push(*x);
        }
    }
    v
}

fn meets(signers: &[usize], role: &RoleKeys) -> bool {
    let n = role.keys.iter().filter(|k| signers.contains(k)).count() as u64;
    n >= role.threshold
}

fn gen_case(seed: u64, i: u64) -> Case {
    let mut r = Rng::for_case(seed, "C02", i);
    let shipped = 1 + r.below(2);
    let consistent = r.bool();
    let root_n = 1 + r.usize(3);
    let root_keys = pool_pick(&mut r, root_n, None, &[]);
    let root_t = 1 + r.below(root_keys.len() as u64);
    let shipped_cfg = RootKeys {
        root: RoleKeys {
            keys: root_keys,
            threshold: root_t,
        },
        timestamp: RoleKeys::one(pool_pick(&mut r, 1, None, &[])[0]),
        snapshot: RoleKeys::one(pool_pick(&mut r, 1, None, &[])[0]),
        targets: RoleKeys::one(pool_pick(&mut r, 1, None, &[])[0]),
    };
    let len = r.usize(5); // 0..4 hops
    let brk = if len == 0 || r.chance(2, 5) {
        Break::None
    } else {
        *r.pick(&[
            Break::OnlyOld,
            Break::OnlyNew,
            Break::ShortOld,
            Break::ShortNew,
            Break::VerLower,
            Break::VerEqual,
            Break::VerSkip,
            Break::Unparsable,
            Break::Missing,
        ])
    };
    let brk_hop = if len > 0 { r.usize(len) } else { 0 };
    let mut files = Vec::new();
    let mut cur = shipped_cfg.clone();
    let mut cfgs = vec![(shipped, shipped_cfg.clone())];
    for h in 0..len {
        let v = shipped + 1 + h as u64;
        let (mut next, label) = rotate_cfg(&mut r, &cur);
        let mut signers = union(&first_n(&cur.root), &first_n(&next.root));
        let mut present = true;
        let mut parsable = true;
        let mut ver_field = v;
        if brk != Break::None && h == brk_hop {
            match brk {
                Break::OnlyOld => {
                    // make sure the new root role differs, then sign with old keys only
                    if next.root.keys.iter().all(|k| cur.root.keys.contains(k)) {
                        let keys = pool_pick(&mut r, 2, None, &cur.root.keys);
                        next.root = RoleKeys { keys, threshold: 1 };
                    }
                    signers = first_n(&cur.root);
                }
                Break::OnlyNew => {
                    if next.root.keys.iter().all(|k| cur.root.keys.contains(k)) {
                        let keys = pool_pick(&mut r, 2, None, &cur.root.keys);
                        next.root = RoleKeys { keys, threshold: 1 };
                    }
                    signers = first_n(&next.root).into_iter().filter(|k| !cur.root.keys.contains(k)).collect();
                    if !meets(&signers, &next.root) {
                        signers = next.root.keys.iter().filter(|k| !cur.root.keys.contains(k)).copied().collect();
                    }
                }
                Break::ShortOld => {
                    // one short of the old threshold
                    let old_part: Vec<usize> = cur.root.keys.iter().take(cur.root.threshold as usize - 1).copied().collect();
                    let new_part: Vec<usize> = first_n(&next.root).into_iter().filter(|k| !cur.root.keys.contains(k)).collect();
                    signers = union(&old_part, &new_part);
                }
                Break::ShortNew => {
                    let new_part: Vec<usize> = next.root.keys.iter().take(next.root.threshold as usize - 1).copied().collect();
                    let old_part: Vec<usize> = first_n(&cur.root).into_iter().filter(|k| !next.root.keys.contains(k)).collect();
                    signers = union(&old_part, &new_part);
                }
                Break::VerLower => ver_field = (v - 1).saturating_sub(1).max(1).min(v - 1).max(1),
                Break::VerEqual => ver_field = v - 1,
                Break::VerSkip => ver_field = v + 1,
                Break::Unparsable => parsable = false,
                Break::Missing => present = false,
                Break::None => {}
            }
            if matches!(brk, Break::ShortOld | Break::ShortNew) && r.bool() {
                // pad the list with second signatures of the same keys, other signers in between:
                // the COUNT of valid signatures reaches the threshold, the number of distinct keys does not
                let again = signers.clone();
                signers.extend(again);
            }
            if brk == Break::VerLower {
                // lower than the trusted version (v-1): needs v-1 > 1; otherwise it degenerates to "equal"
                ver_field = if v >= 3 { v - 2 } else { v - 1 };
            }
        }
        files.push(RootFile {
            name_version: v,
            present,
            parsable,
            ver_field,
            cfg: next.clone(),
            signers,
            rot_label: label,
        });
        cfgs.push((v, next.clone()));
        cur = next;
    }
    // epoch whose online keys sign the top-level metadata: mostly the final one
    let pick_final = r.chance(3, 5);
    let (epoch, epoch_cfg) = if pick_final || cfgs.len() == 1 {
        cfgs.last().unwrap().clone()
    } else {
        cfgs[r.usize(cfgs.len())].clone()
    };
    Case {
        shipped,
        shipped_cfg,
        files,
        brk,
        brk_hop,
        epoch,
        epoch_cfg,
        consistent,
    }
}

#[derive(Debug, Default)]
struct Expect {
    acceptable: BTreeSet<u64>,
    may_fail: bool,
    broke: Vec<String>,
}

/// Reference walk over the generator's ground truth.
fn walk(c: &Case, start_version: u64, start_cfg: &RootKeys, ex: &mut Expect) {
    let mut cur_v = start_version;
    let mut cur = start_cfg.clone();
    loop {
        let f = c.files.iter().find(|f| f.name_version == cur_v + 1);
        let Some(f) = f else {
            ex.acceptable.insert(cur_v);
            return;
        };
        if !f.present {
            ex.acceptable.insert(cur_v);
            return;
        }
        let stop = |ex: &mut Expect, why: &str| {
            ex.may_fail = true;
            ex.acceptable.insert(cur_v);
            ex.broke.push(why.to_string());
        };
        if !f.parsable {
            stop(ex, "unparsable");
            return;
        }
        let ok_old = meets(&f.signers, &cur.root);
        let ok_new = meets(&f.signers, &f.cfg.root);
        if !ok_old {
            stop(ex, "old-threshold-missed");
            return;
        }
        if !ok_new {
            stop(ex, "new-threshold-missed");
            return;
        }
        if f.ver_field < cur_v {
            stop(ex, "version-lower");
            return;
        }
        if f.ver_field == cur_v {
            stop(ex, "version-equal");
            return;
        }
        if f.ver_field == cur_v + 1 {
            cur_v = f.ver_field;
            cur = f.cfg.clone();
            continue;
        }
        // properly signed, higher but not consecutive: may be refused or followed
        stop(ex, "version-skip");
        walk(c, f.ver_field, &f.cfg, ex);
        return;
    }
}

fn cfg_of(c: &Case, version: u64) -> Option<RootKeys> {
    if version == c.shipped {
        return Some(c.shipped_cfg.clone());
    }
    // a version may be reached by name or (skip) by field
    c.files
        .iter()
        .find(|f| f.ver_field == version && f.present && f.parsable)
        .or_else(|| c.files.iter().find(|f| f.name_version == version))
        .map(|f| f.cfg.clone())
}

fn describe(c: &Case) -> J {
    let role = |r: &RoleKeys| obj! {"keys" => J::A(r.keys.iter().map(|k| J::U(*k as u64)).collect()), "threshold" => r.threshold};
    let cfg = |k: &RootKeys| obj! {"root" => role(&k.root), "timestamp" => role(&k.timestamp), "snapshot" => role(&k.snapshot), "targets" => role(&k.targets)};
    obj! {
        "shipped_version" => c.shipped,
        "shipped" => cfg(&c.shipped_cfg),
        "consistent_snapshot" => c.consistent,
        "break" => format!("{:?}", c.brk),
        "break_hop" => c.brk_hop,
        "root_files" => J::A(c.files.iter().map(|f| obj!{
            "file" => format!("{}.root.json", f.name_version),
            "present" => f.present, "parsable" => f.parsable, "version_field" => f.ver_field,
            "rotation" => f.rot_label.as_str(),
            "roles" => cfg(&f.cfg),
            "signed_by" => J::A(f.signers.iter().map(|k| J::U(*k as u64)).collect()),
        }).collect()),
        "toplevel_signed_with_online_keys_of_root" => c.epoch,
    }
}

fn run_case(w: &mut Worker, c: &Case) -> CaseOut {
    let mut out = CaseOut::default();
    // shipped root
    let shipped_signed = root_signed(c.shipped, c.consistent, FAR, &c.shipped_cfg);
    let shipped_bytes = render(&sign_with(&shipped_signed, &first_n(&c.shipped_cfg.root)), Style::Pretty);
    // top-level metadata signed by the chosen epoch's online keys
    let spec = RepoSpec {
        consistent: c.consistent,
        keys: c.epoch_cfg.clone(),
        ..RepoSpec::default()
    };
    let built = build(&spec);
    let mut files = built.files.clone();
    files.retain(|k, _| !k.ends_with(".root.json"));
    files.insert(meta_path(c.consistent, c.shipped, "root"), shipped_bytes.clone());
    for f in &c.files {
        if !f.present {
            continue;
        }
        let path = meta_path(c.consistent, f.name_version, "root");
        if !f.parsable {
            files.insert(path, b"{\"signed\": {\"_type\": \"root\", \"version\": ".to_vec());
            continue;
        }
        let signed = root_signed(f.ver_field, c.consistent, FAR, &f.cfg);
        files.insert(path, render(&sign_with(&signed, &f.signers), Style::Compact));
    }
    let t = MemTransport::new(files);
    let dir = w.case_dir();
    let res = w.rt.block_on(client::load(
        &shipped_bytes,
        &t,
        &dir,
        &LoadOpts::default(),
        client::watchdog(w.cfg.tier),
    ));
    out.evals = 1;
    let mut ex = Expect::default();
    walk(c, c.shipped, &c.shipped_cfg, &mut ex);
    let exact = !ex.may_fail;
    let eff_break = if ex.broke.is_empty() { "none".to_string() } else { ex.broke.join("+") };
    let log = t.log_paths();
    let observed;
    match &res {
        Err(client::LoadErr::Watchdog) => {
            out.inconc("watchdog");
            observed = "watchdog".to_string();
        }
        Ok(repo) => {
            let v = repo.root().signed.version.get();
            observed = format!("ok, trusted root version {v}");
            if v < c.shipped {
                out.viol("trusted-below-shipped", format!("trusted root {v} < shipped {}", c.shipped));
            }
            if !ex.acceptable.contains(&v) {
                out.viol(
                    format!("trusted-unverified-root:break={eff_break}"),
                    format!("trusted root version {v}, acceptable {:?}", ex.acceptable),
                );
            } else if let Some(fcfg) = cfg_of(c, v) {
                // every top-level role must be authorised by the FINAL root
                for (name, role, signers) in [
                    ("timestamp", &fcfg.timestamp, first_n(&c.epoch_cfg.timestamp)),
                    ("snapshot", &fcfg.snapshot, first_n(&c.epoch_cfg.snapshot)),
                    ("targets", &fcfg.targets, first_n(&c.epoch_cfg.targets)),
                ] {
                    if !meets(&signers, role) {
                        out.viol(
                            format!("stale-keys-accepted:role={name}"),
                            format!("{name} signed by keys {signers:?} of root {} accepted under final root {v} which authorises {:?}/{}", c.epoch, role.keys, role.threshold),
                        );
                    }
                }
            }
        }
        Err(e) => {
            observed = format!("failed: {}", e.text());
            if exact {
                // fully valid chain: must end at its last root, provided the top-level metadata is
                // authorised by that root
                let last_v = *ex.acceptable.iter().next().unwrap();
                let fcfg = cfg_of(c, last_v).unwrap();
                let top_ok = meets(&first_n(&c.epoch_cfg.timestamp), &fcfg.timestamp)
                    && meets(&first_n(&c.epoch_cfg.snapshot), &fcfg.snapshot)
                    && meets(&first_n(&c.epoch_cfg.targets), &fcfg.targets);
                if top_ok {
                    out.viol(
                        "valid-chain-refused",
                        format!("valid chain ending at root {last_v} with authorised top-level metadata failed: {}", e.text()),
                    );
                } else {
                    out.h("toplevel-revoked-keys-refused");
                }
            }
        }
    }
    // fetch-log rules
    let mut root_reqs: Vec<(u64, bool)> = Vec::new();
    for r in t.log() {
        if let Some(name) = r.path.strip_prefix("/metadata/") {
            if let Some(vs) = name.strip_suffix(".root.json") {
                if let Ok(v) = vs.parse::<u64>() {
                    root_reqs.push((v, r.found));
                }
            }
        }
    }
    let mut missing_seen = false;
    let mut prev = c.shipped;
    for (v, found) in &root_reqs {
        if missing_seen {
            out.viol("fetch-after-missing", format!("root requests {root_reqs:?}"));
            break;
        }
        if *v <= prev {
            out.viol("non-forward-root-requests", format!("root requests {root_reqs:?}"));
            break;
        }
        prev = *v;
        if !found {
            missing_seen = true;
        }
    }
    if let Some((v0, _)) = root_reqs.first() {
        if *v0 != c.shipped + 1 {
            out.viol("first-root-request-not-next", format!("root requests {root_reqs:?}"));
        }
    }
    out.h(format!("break={:?}", c.brk));
    out.h(format!("effective-break={eff_break}"));
    out.h(format!("chain-len={}", c.files.len()));
    out.h(if exact { "outcome=exact" } else { "outcome=set" });
    for f in &c.files {
        for l in f.rot_label.split(',') {
            out.h(format!("rotation={l}"));
        }
    }
    out.h(format!(
        "toplevel-epoch={}",
        if c.epoch == c.shipped + c.files.len() as u64 { "final" } else { "earlier" }
    ));
    out.fingerprint = Some(format!(
        "{}|{:?}|{:?}|{}|{}|{}",
        c.shipped,
        c.files.iter().map(|f| f.rot_label.clone()).collect::<Vec<_>>(),
        c.brk,
        c.brk_hop,
        c.epoch,
        c.consistent
    ));
    out.nontrivial = !c.files.is_empty();
    let mut d = describe(c);
    d.set("acceptable_final_roots", J::A(ex.acceptable.iter().map(|v| J::U(*v)).collect()));
    d.set("failure_acceptable", ex.may_fail);
    d.set("observed", observed);
    d.set("requests", J::A(log.into_iter().map(J::S).collect()));
    out.desc = Some(d);
    w.cleanup(&dir);
    out
}

/// Shipped roots that do not verify under their own keys must be refused.
fn run_bad_shipped(w: &mut Worker, i: u64, seed: u64) -> CaseOut {
    let mut out = CaseOut::default();
    let mut r = Rng::for_case(seed, "C02-shipped", i);
    let n = 1 + r.usize(3);
    let keys = pool_pick(&mut r, n, None, &[]);
    let t = 1 + r.below(n as u64);
    let cfg = RootKeys {
        root: RoleKeys {
            keys: keys.clone(),
            threshold: t,
        },
        ..RootKeys::simple()
    };
    let kind = r.usize(3);
    let signers: Vec<usize> = match kind {
        0 => keys.iter().take(t as usize - 1).copied().collect(), // one short
        1 => pool_pick(&mut r, t as usize, None, &keys),          // foreign keys only
        _ => vec![],                                              // unsigned
    };
    let spec = RepoSpec {
        keys: cfg.clone(),
        ..RepoSpec::default()
    };
    let built = build(&spec);
    let signed = root_signed(1, false, FAR, &cfg);
    let shipped = render(&sign_with(&signed, &signers), Style::Pretty);
    let mut files = built.files.clone();
    files.insert(meta_path(false, 1, "root"), shipped.clone());
    // half of the cases: the repository also serves newer roots that are correctly signed by a
    // threshold of the keys the (bad) shipped root lists - the shipped root must be refused all the same
    let newer = r.below(2) * (1 + r.below(2));
    for v in 2..2 + newer {
        let good: Vec<usize> = keys.iter().take(t as usize).copied().collect();
        files.insert(meta_path(false, v, "root"), render(&sign_with(&root_signed(v, false, FAR, &cfg), &good), Style::Pretty));
    }
    let tr = MemTransport::new(files);
    let dir = w.case_dir();
    let res = w.rt.block_on(client::load(&shipped, &tr, &dir, &LoadOpts::default(), client::watchdog(w.cfg.tier)));
    out.evals = 1;
    let label = format!("{}{}", ["one-short", "foreign-keys", "unsigned"][kind], if newer > 0 { ":valid-newer-roots-served" } else { "" });
    if res.is_ok() {
        out.viol(
            format!("bad-shipped-root-accepted:{label}"),
            format!("shipped root with keys {keys:?}/{t} signed by {signers:?} loaded"),
        );
    }
    out.h(format!("bad-shipped={label}"));
    out.fingerprint = Some(format!("shipped|{n}|{t}|{kind}|{newer}"));
    out.nontrivial = true;
    out.desc = Some(obj! {"kind" => "shipped root not self-verifying", "variant" => label.as_str(), "newer_valid_roots_served" => newer, "keys" => format!("{keys:?}"), "threshold" => t, "signed_by" => format!("{signers:?}"), "observed" => format!("{:?}", res.as_ref().map(|_| "ok").map_err(|e| e.text()))});
    w.cleanup(&dir);
    out
}

pub fn run(cfg: &Cfg) -> i32 {
    let start = Instant::now();
    let _ = crate::keys::pool();
    let n = cfg.tier.pick(20_000u64, 300_000);
    let nbad = cfg.tier.pick(600u64, 6_000);
    let budget = cfg.tier.pick(Duration::from_secs(300), Duration::from_secs(1500));
    let ev = par_run(cfg, n + nbad, budget, |w, i| {
        if i < n {
            let c = gen_case(w.cfg.seed, i);
            Some(run_case(w, &c))
        } else {
            Some(run_bad_shipped(w, i - n, w.cfg.seed))
        }
    });
    let mut required = vec![];
    for b in [
        "None", "OnlyOld", "OnlyNew", "ShortOld", "ShortNew", "VerLower", "VerEqual", "VerSkip", "Unparsable", "Missing",
    ] {
        required.push(format!("break={b}"));
    }
    for l in ["chain-len=0", "chain-len=4", "outcome=exact", "outcome=set", "toplevel-epoch=final", "toplevel-epoch=earlier", "bad-shipped=one-short", "bad-shipped=unsigned:valid-newer-roots-served", "bad-shipped=one-short:valid-newer-roots-served", "toplevel-revoked-keys-refused"] {
        required.push(l.to_string());
    }
    finish(
        cfg,
        ev,
        Finish {
            level: "exploration",
            rule: "seeded random root chains: shipped version 1..2, 0..4 hops, per hop a rotation of the root role (same/disjoint/overlap/threshold up/down/algorithm change) and independently of the online roles, optionally one broken hop of 9 kinds; top-level metadata signed by the online keys of the final or of an earlier root; plus shipped roots that do not self-verify. Oracle: reference walk over the generator's ground truth producing the set of acceptable final roots. Fingerprint = (shipped, rotation labels per hop, break kind, break hop, epoch, consistent); non-trivial = chain length >= 1 or bad shipped root.",
            assumptions: vec![
                "a broken hop may end in failure or in success with the last good root; a correctly double-signed skipping hop may be followed or refused".into(),
                "chains longer than 4 hops are out of reach here (see C09 for long chains)".into(),
            ],
            required_hist: required,
            min_evaluations: 1000,
        },
        start.elapsed(),
    )
}
