//! C13 — a key is only trusted under the identifier that is the digest of its content.

use crate::forge::*;
use crate::json::{refcanon, render, sha256_hex, Style, J};
use crate::keys::{key, keyid_of, Alg, Enc, N_EC, N_ED, N_RSA};
use crate::obj;
use crate::rng::Rng;
use crate::run::*;
use std::str::FromStr;
use std::time::{Duration, Instant};
use tough::schema::key::Key;
use tough::schema::{Root, Signed, Targets};

#[derive(Clone, Copy, Debug, PartialEq, Eq)]
enum Mutation {
    None,
    BitFlip,
    SwapWithOther,
    SwapTwo,
    Truncate,
    Extend,
    UpperCase,
    MixedCase,
    DuplicateSameSpelling,
    DuplicateOtherCase,
    /// the key content is altered but the identifier kept
    AlterKeyContent,
}

const MUTS: [Mutation; 11] = [
    Mutation::None,
    Mutation::BitFlip,
    Mutation::SwapWithOther,
    Mutation::SwapTwo,
    Mutation::Truncate,
    Mutation::Extend,
    Mutation::UpperCase,
    Mutation::MixedCase,
    Mutation::DuplicateSameSpelling,
    Mutation::DuplicateOtherCase,
    Mutation::AlterKeyContent,
];

#[derive(Clone, Copy, Debug, PartialEq, Eq)]
enum Table {
    Root,
    Delegations1,
    Delegations2,
}

#[derive(Clone, Debug)]
struct Case {
    table: Table,
    /// (pool key index, encoding, extras variant)
    keys: Vec<(usize, Enc, usize)>,
    mutation: Mutation,
    pos: usize,
    /// what the same thread was made to parse (and refuse) immediately before this case: 0 nothing,
    /// 1 a key table holding a key with a float member (cannot be put in canonical form),
    /// 2 a key table with a wrong identifier, 3 a key table with an unparsable key
    prelude: u8,
}

/// A hostile document parsed on this thread right before the judged one: whatever the library makes
/// of it must leave no trace in what follows.
fn run_prelude(kind: u8, out: &mut CaseOut) {
    if kind == 0 {
        return;
    }
    let mut kj = key(1).key_json(Enc::Default);
    let id = keyid_of(&kj);
    let listed = match kind {
        1 => {
            kj.set("weight", J::F(0.5));
            kj.at_mut("keyval").set("x-ratio", J::F(1.25));
            id
        }
        2 => flip_hex(&id, 5),
        _ => {
            kj.at_mut("keyval").set("public", J::U(7));
            id
        }
    };
    let mut rs = root_signed(1, false, FAR, &RootKeys::simple());
    rs.set("keys", J::O(vec![(listed, kj)]));
    let doc = envelope(rs, vec![]);
    let r = serde_json::from_slice::<Signed<Root>>(&render(&doc, Style::Compact));
    out.evals += 1;
    out.h(format!("prelude={kind}:{}", if r.is_ok() { "accepted" } else { "refused" }));
    if r.is_ok() && kind == 2 {
        out.viol("bad-keyid-accepted:prelude", "root with a bit-flipped key identifier parsed".to_string());
    }
}

fn key_json_with_extras(k: usize, enc: Enc, extras: usize) -> J {
    let mut j = key(k).key_json(enc);
    match extras {
        1 => j.set("keyid_hash_algorithms", J::A(vec![J::from("sha256"), J::from("sha512")])),
        2 => j.at_mut("keyval").set("x-private", ""),
        3 => {
            j.set("x-unknown", obj! {"nested" => J::A(vec![J::U(1), J::Null])});
            j.at_mut("keyval").set("x-other", 7u64);
        }
        _ => {}
    }
    j
}

fn flip_hex(s: &str, pos: usize) -> String {
    let mut b: Vec<char> = s.chars().collect();
    let i = pos % b.len();
    let v = b[i].to_digit(16).unwrap();
    b[i] = std::char::from_digit(v ^ 1, 16).unwrap();
    b.into_iter().collect()
}

fn mixed_case(s: &str) -> String {
    s.chars()
        .enumerate()
        .map(|(i, c)| if i % 2 == 0 { c.to_ascii_uppercase() } else { c })
        .collect()
}

/// Builds the key table members (ordered, duplicates allowed) and says whether the document must parse.
fn build_table(c: &Case) -> (Vec<(String, J)>, bool) {
    let mut members: Vec<(String, J)> = c
        .keys
        .iter()
        .map(|(k, e, x)| {
            let kj = key_json_with_extras(*k, *e, *x);
            (keyid_of(&kj), kj)
        })
        .collect();
    let n = members.len();
    let p = c.pos % n;
    let mut must_parse = true;
    match c.mutation {
        Mutation::None => {}
        Mutation::BitFlip => {
            members[p].0 = flip_hex(&members[p].0, c.pos * 7 + 3);
            must_parse = false;
        }
        Mutation::SwapWithOther => {
            // identifier of a key that is not in the table
            members[p].0 = key(N_ED + N_EC + N_RSA - 1 - (p % 2)).keyid(Enc::Default);
            must_parse = c.keys.iter().any(|(k, e, x)| *k == N_ED + N_EC + N_RSA - 1 - (p % 2) && *e == Enc::Default && *x == 0 && false);
        }
        Mutation::SwapTwo => {
            if n >= 2 {
                let q = (p + 1) % n;
                let a = members[p].0.clone();
                members[p].0 = members[q].0.clone();
                members[q].0 = a;
                must_parse = false;
            }
        }
        Mutation::Truncate => {
            let l = members[p].0.len();
            members[p].0.truncate(l - 2);
            must_parse = false;
        }
        Mutation::Extend => {
            members[p].0.push_str("00");
            must_parse = false;
        }
        Mutation::UpperCase => members[p].0 = members[p].0.to_uppercase(),
        Mutation::MixedCase => members[p].0 = mixed_case(&members[p].0),
        Mutation::DuplicateSameSpelling => {
            let m = members[p].clone();
            members.push(m);
            must_parse = false;
        }
        Mutation::DuplicateOtherCase => {
            let mut m = members[p].clone();
            m.0 = m.0.to_uppercase();
            members.insert(0, m);
            must_parse = false;
        }
        Mutation::AlterKeyContent => {
            // keep the identifier, change the key: add a member that is part of the key object
            members[p].1.set("x-added-after-id-was-computed", true);
            must_parse = false;
        }
    }
    (members, must_parse)
}

fn gen_cases(cfg: &Cfg) -> Vec<Case> {
    let mut v = Vec::new();
    let encs: Vec<(usize, Enc)> = vec![
        (0, Enc::Default),                // ed25519 hex
        (N_ED, Enc::Default),             // ecdsa PEM, keytype ecdsa
        (N_ED + 1, Enc::EcdsaHex),        // ecdsa hex
        (N_ED + 2, Enc::EcdsaOldType),    // keytype ecdsa-sha2-nistp256
        (N_ED + N_EC, Enc::Default),      // rsa PEM
    ];
    // every (key kind, extras, mutation, table) with a single key, and with a second key in front/behind
    for table in [Table::Root, Table::Delegations1, Table::Delegations2] {
        for (ei, (k, e)) in encs.iter().enumerate() {
            for extras in 0..4 {
                for m in MUTS {
                    for n in 1..=3usize {
                        for pos in 0..n {
                            let mut keys = Vec::new();
                            for j in 0..n {
                                if j == pos {
                                    keys.push((*k, *e, extras));
                                } else {
                                    let (ok, oe) = encs[(ei + 1 + j) % encs.len()];
                                    keys.push((ok + 1 - (ok % 2) * 0, oe, (extras + j) % 4));
                                }
                            }
                            // keys must be distinct objects
                            let mut ok = true;
                            for a in 0..keys.len() {
                                for b in (a + 1)..keys.len() {
                                    if keys[a].0 == keys[b].0 && keys[a].1 == keys[b].1 {
                                        ok = false;
                                    }
                                }
                            }
                            if ok {
                                let prelude = (v.len() % 4) as u8;
                                v.push(Case { table, keys, mutation: m, pos, prelude });
                            }
                        }
                    }
                }
            }
        }
    }
    let n = cfg.tier.pick(4_000u64, 1_500_000);
    for i in 0..n {
        let mut r = Rng::for_case(cfg.seed, "C13", i);
        let nk = 1 + r.usize(4);
        let mut keys: Vec<(usize, Enc, usize)> = Vec::new();
        while keys.len() < nk {
            let k = r.usize(N_ED + N_EC + N_RSA - 2);
            let e = if key(k).alg == Alg::Ecdsa {
                *r.pick(&[Enc::Default, Enc::EcdsaHex, Enc::EcdsaOldType])
            } else {
                Enc::Default
            };
            if !keys.iter().any(|x| x.0 == k) {
                keys.push((k, e, r.usize(4)));
            }
        }
        v.push(Case {
            table: *r.pick(&[Table::Root, Table::Delegations1, Table::Delegations2]),
            keys,
            mutation: *r.pick(&MUTS),
            pos: r.usize(8),
            prelude: r.usize(4) as u8,
        });
    }
    v
}

fn run_case(c: &Case) -> CaseOut {
    let mut out = CaseOut::default();
    run_prelude(c.prelude, &mut out);
    let (members, must_parse) = build_table(c);
    let table = J::O(members.clone());
    // embed the table
    let parsed_ok: Result<(), String> = match c.table {
        Table::Root => {
            let mut rs = root_signed(1, false, FAR, &RootKeys::simple());
            // role key ids do not matter for parsing; keep the generated ones
            rs.set("keys", table.clone());
            let doc = envelope(rs, vec![]);
            serde_json::from_slice::<Signed<Root>>(&render(&doc, Style::Compact)).map(|_| ()).map_err(|e| e.to_string())
        }
        Table::Delegations1 | Table::Delegations2 => {
            let d = obj! {"keys" => table.clone(), "roles" => J::A(vec![delegated_role_entry("r", &[], 1, &Paths::Patterns(vec!["*".into()]), false)])};
            let ts = targets_signed(1, FAR, vec![], Some(d));
            let doc = envelope(ts, vec![]);
            // depth 2: the same document is what a delegated role's file looks like (parsed as Signed<Targets> too)
            serde_json::from_slice::<Signed<Targets>>(&render(&doc, if c.table == Table::Delegations1 { Style::Compact } else { Style::Pretty }))
                .map(|_| ())
                .map_err(|e| e.to_string())
        }
    };
    out.evals += 1;
    let tname = format!("{:?}", c.table).to_lowercase();
    match (&parsed_ok, must_parse) {
        (Ok(()), false) => out.viol(
            format!("bad-keyid-accepted:mutation={:?}:table={tname}", c.mutation),
            format!("table with mutation {:?} at position {} parsed", c.mutation, c.pos),
        ),
        (Err(e), true) => out.viol(
            if c.mutation == Mutation::None { format!("valid-table-refused:table={tname}") } else { format!("case-respelling-refused:{:?}:table={tname}", c.mutation) },
            format!("table must parse but: {e}"),
        ),
        _ => {}
    }
    // (b) identifiers computed by the library
    for (k, e, x) in &c.keys {
        let kj = key_json_with_extras(*k, *e, *x);
        let want = keyid_of(&kj);
        let parsed: Result<Key, _> = serde_json::from_slice(&render(&kj, Style::Compact));
        out.evals += 1;
        match parsed {
            Err(err) => out.viol(format!("valid-key-refused:{}", key(*k).alg.short()), format!("{err}")),
            Ok(pk) => {
                let got = pk.key_id().map(|d| hex::encode(&d)).unwrap_or_default();
                if got != want {
                    out.viol(format!("keyid-differs:{}:{e:?}", key(*k).alg.short()), format!("library {got}, reference {want}"));
                }
                // parse -> serialise -> parse stability
                let re = serde_json::to_vec(&pk).unwrap();
                let rj = J::parse(&re).unwrap();
                if refcanon(&rj).ok() != refcanon(&kj).ok() {
                    out.viol(format!("keyid-unstable:{}:{e:?}", key(*k).alg.short()), "re-serialised key differs canonically".to_string());
                }
                let again: Key = serde_json::from_slice(&re).unwrap();
                if again.key_id().map(|d| hex::encode(&d)).unwrap_or_default() != want {
                    out.viol(format!("keyid-unstable:{}:{e:?}", key(*k).alg.short()), "id changes after parse/serialise/parse".to_string());
                }
            }
        }
        // keys the library generates/imports: Sign::tuf_key (through the pool) and Key::from_str
        if *x == 0 && *e == Enc::Default {
            let public = kj.at("keyval").at("public").as_str().unwrap().to_string();
            if let Ok(fk) = Key::from_str(&public) {
                out.evals += 1;
                let got = fk.key_id().map(|d| hex::encode(&d)).unwrap_or_default();
                // from_str yields keytype/scheme defaults; compare with the reference over ITS json
                let fj = J::from_serde(&serde_json::to_value(&fk).unwrap());
                if got != sha256_hex(&refcanon(&fj).unwrap()) {
                    out.viol(format!("keyid-differs:from_str:{}", key(*k).alg.short()), format!("library {got}"));
                }
                if refcanon(&fj).ok() != refcanon(&kj).ok() {
                    out.obs("from_str-key-json-differs-from-tuf_key-json");
                }
                out.h(format!("from_str:{}", key(*k).alg.short()));
            } else {
                out.viol(format!("from_str-refused:{}", key(*k).alg.short()), public.chars().take(40).collect::<String>());
            }
        }
        out.h(format!("keykind={}:{e:?}", key(*k).alg.short()));
        out.h(format!("extras={x}"));
    }
    out.h(format!("mutation={:?}", c.mutation));
    out.h(format!("table={tname}"));
    out.fingerprint = Some(format!("{c:?}"));
    out.nontrivial = c.mutation != Mutation::None;
    out.desc = Some(obj! {
        "table" => tname.as_str(), "mutation" => format!("{:?}", c.mutation), "position" => c.pos,
        "keys(pool index, encoding, extras variant)" => format!("{:?}", c.keys),
        "identifiers_as_listed" => J::A(members.iter().map(|(i, _)| J::S(i.clone())).collect()),
        "must_parse" => must_parse, "hostile_document_parsed_on_this_thread_just_before" => c.prelude as u64,
        "parse_result" => match &parsed_ok { Ok(()) => "ok".to_string(), Err(e) => e.clone() },
    });
    out
}

pub fn run(cfg: &Cfg) -> i32 {
    let start = Instant::now();
    let _ = crate::keys::pool();
    let cases = gen_cases(cfg);
    let budget = cfg.tier.pick(Duration::from_secs(240), Duration::from_secs(1200));
    let mut ev = par_run(cfg, cases.len() as u64, budget, |_w, i| cases.get(i as usize).map(run_case));
    crate::memcheck::run(cfg, &mut ev, crate::memcheck::Leg { processes: 16, modulus: 16, limit: Duration::from_secs(900) });
    let mut required: Vec<String> = MUTS.iter().map(|m| format!("mutation={m:?}")).collect();
    for t in ["root", "delegations1", "delegations2"] {
        required.push(format!("table={t}"));
    }
    for k in ["ed25519:Default", "ecdsa:Default", "ecdsa:EcdsaHex", "ecdsa:EcdsaOldType", "rsa:Default"] {
        required.push(format!("keykind={k}"));
    }
    for k in ["ed25519", "ecdsa", "rsa"] {
        required.push(format!("from_str:{k}"));
    }
    for x in 0..4 {
        required.push(format!("extras={x}"));
    }
    for p in ["prelude=1:refused", "prelude=2:refused", "prelude=3:refused"] {
        required.push(p.to_string());
    }
    finish(
        cfg,
        ev,
        Finish {
            level: "exploration",
            rule: "key tables of 1..4 keys (ed25519 hex; ecdsa as PEM, as hex, and with the old key type; rsa PEM; with 4 variants of unknown extra members in the key and in keyval) embedded in a root document and in delegations of a targets document; every mutation {bit flip, swap with a foreign id, swap two, truncate, extend, upper-case, mixed-case, duplicate same spelling, duplicate other case, alter key content under the old id} at every position for tables of 1..3 keys, plus seeded random tables of 1..4 keys; parsed with serde_json::from_slice::<Signed<Root|Targets>>. Identifier oracle = SHA-256 of the reference canonical form. Three quarters of the cases are preceded, on the same thread, by a hostile root document that the parser refuses (a key with float members, a wrong identifier, an unparsable key): no trace of it may change the verdict or the identifiers that follow. Also: Key parsed/re-serialised/re-parsed and Key::from_str on the public key text. Non-trivial = a mutation is applied.",
            assumptions: vec!["SHA-256 from aws-lc-rs; reference canonical form from the harness".into()],
            required_hist: required,
            min_evaluations: 5000,
        },
        start.elapsed(),
    )
}
