//! C14 — online-key rotation lets clients recover from fast-forwarded versions.

use crate::client::LoadOpts;
use crate::forge::*;
use crate::hist::*;
use crate::json::J;
use crate::obj;
use crate::rng::Rng;
use crate::run::*;
use std::time::{Duration, Instant};

#[derive(Clone, Debug)]
struct Case {
    v_class: &'static str,
    v: u64,
    rotate_ts: bool,
    rotate_snap: bool,
    rotate_tg: bool,
    overlap: &'static str,
    hops: usize,
    /// index (0-based) of the hop that carries the rotation
    rot_hop: usize,
    t1: u64,
    t2: u64,
    lo: u64,
    consistent: bool,
}

fn base_cfg() -> RootKeys {
    RootKeys {
        root: RoleKeys::one(0),
        timestamp: RoleKeys { keys: vec![1, 4], threshold: 1 },
        snapshot: RoleKeys { keys: vec![2, 5], threshold: 1 },
        targets: RoleKeys { keys: vec![3, 6], threshold: 1 },
    }
}

fn rot(role: &RoleKeys, how: &str, fresh: usize) -> RoleKeys {
    match how {
        "disjoint" => RoleKeys { keys: vec![fresh], threshold: 1 },
        "add-key" => {
            let mut k = role.keys.clone();
            k.push(fresh);
            RoleKeys { keys: k, threshold: role.threshold }
        }
        "remove-one" => RoleKeys { keys: vec![role.keys[1]], threshold: 1 },
        _ => RoleKeys { keys: vec![role.keys[0], fresh], threshold: 1 }, // replace-one
    }
}

fn gen_case(seed: u64, i: u64) -> Case {
    let mut r = Rng::for_case(seed, "C14", i);
    // first 3*4*4*2 cases enumerate the main grid, the rest is random
    let (v_class, v) = *r.pick(&[("3", 3u64), ("2^31", 1u64 << 31), ("2^63", 1u64 << 63)]);
    let which = r.usize(4);
    let hops = 1 + r.usize(3);
    let t1 = 1 + r.below(2);
    let tg_lower = r.chance(1, 4);
    let t2 = if tg_lower && t1 > 1 { t1 - 1 } else { t1 + r.below(2) };
    Case {
        v_class,
        v,
        rotate_ts: which == 0 || which == 2,
        rotate_snap: which == 1 || which == 2,
        rotate_tg: r.chance(1, 4),
        overlap: *r.pick(&["disjoint", "add-key", "remove-one", "replace-one"]),
        hops,
        rot_hop: r.usize(hops),
        t1,
        t2,
        lo: 1 + r.below(2),
        consistent: r.bool(),
    }
}

fn run_case(w: &mut Worker, c: &Case) -> CaseOut {
    let mut out = CaseOut::default();
    let dir = w.case_dir();
    let ds = dir.join("ds");
    std::fs::create_dir_all(&ds).unwrap();
    let mut ep = Epochs::single(base_cfg(), c.consistent);
    let shipped = ep.root_bytes(1);
    // cycle 1: fast-forwarded versions, validly signed with the then-current keys
    let s1 = Served::new(c.v, c.v, Some(c.t1), c.t1);
    let (o1, _) = run_cycle(w, &shipped, cycle_files(&ep, 1, &s1), &ds, &LoadOpts::default());
    out.evals += 1;
    if !o1.ok {
        out.broken = Some(format!("baseline cycle 1 failed: {}", o1.err_text));
        w.cleanup(&dir);
        return out;
    }
    // publish roots
    for h in 0..c.hops {
        let mut next = ep.cfgs.last().unwrap().clone();
        if h == c.rot_hop {
            if c.rotate_ts {
                next.timestamp = rot(&next.timestamp, c.overlap, 8);
            }
            if c.rotate_snap {
                next.snapshot = rot(&next.snapshot, c.overlap, 9);
            }
            if c.rotate_tg {
                next.targets = rot(&next.targets, c.overlap, 10);
            }
        }
        ep.push(next);
    }
    let published = ep.cfgs.len() as u64;
    let s2 = Served::new(c.lo, c.lo, Some(c.t2), c.t2);
    let (o2, _) = run_cycle(w, &shipped, cycle_files(&ep, published, &s2), &ds, &LoadOpts::default());
    out.evals += 1;
    let online_rotated = c.rotate_ts || c.rotate_snap;
    let rotated = match (c.rotate_ts, c.rotate_snap) {
        (true, true) => "both",
        (true, false) => "timestamp",
        (false, true) => "snapshot",
        _ => "neither",
    };
    let tg_lower = c.t2 < c.t1;
    if o2.watchdog {
        out.inconc("watchdog");
    } else if online_rotated && !tg_lower {
        out.h("expect=accept");
        if !o2.ok {
            out.viol(
                format!("recovery-refused:rotated={rotated}:{}", c.overlap),
                format!("after rotation of {rotated} keys ({}), repository restarted at ts/snap v{} (stored v{}) was refused: {}", c.overlap, c.lo, c.v_class, o2.err_text),
            );
        }
    } else if !online_rotated && c.lo < c.v {
        out.h("expect=refuse-unrotated");
        if o2.ok {
            out.viol(
                "rollback-accepted:unrotated",
                format!("no timestamp/snapshot key change, yet ts/snap v{} accepted after v{}", c.lo, c.v_class),
            );
        }
    } else if tg_lower && !c.rotate_tg {
        out.h("expect=refuse-targets-unrotated");
        if o2.ok {
            out.viol(
                "rollback-accepted:targets-unrotated",
                format!("targets keys unchanged, targets v{} accepted after v{}", c.t2, c.t1),
            );
        }
    } else {
        out.h("expect=unjudged");
    }
    out.h(format!("V={}", c.v_class));
    out.h(format!("rotated={rotated}"));
    out.h(format!("overlap={}", c.overlap));
    out.h(format!("hops={}", c.hops));
    out.fingerprint = Some(format!(
        "{}|{}|{}|{}|{}|{}|{}|{}|{}",
        c.v_class, rotated, c.rotate_tg, c.overlap, c.hops, c.rot_hop, c.t1, c.t2, c.lo
    ));
    out.nontrivial = true;
    out.desc = Some(obj! {
        "stored_after_cycle_1(ts,snap,listed,targets)" => s1.tuple(),
        "V" => c.v_class,
        "roots_published" => c.hops, "rotation_in_hop" => c.rot_hop,
        "rotated" => rotated, "targets_keys_rotated" => c.rotate_tg, "rotation_kind" => c.overlap,
        "cycle_2_served" => s2.tuple(),
        "consistent_snapshot" => c.consistent,
        "cycle_1" => o1.to_j(),
        "cycle_2" => o2.to_j(),
    });
    let _ = J::Null;
    w.cleanup(&dir);
    out
}

pub fn run(cfg: &Cfg) -> i32 {
    let start = Instant::now();
    let _ = crate::keys::pool();
    let n = cfg.tier.pick(6_000u64, 400_000);
    let budget = cfg.tier.pick(Duration::from_secs(240), Duration::from_secs(1200));
    let ev = par_run(cfg, n, budget, |w, i| Some(run_case(w, &gen_case(w.cfg.seed, i))));
    let required = vec![
        "expect=accept".into(),
        "expect=refuse-unrotated".into(),
        "expect=refuse-targets-unrotated".into(),
        "V=2^63".into(),
        "V=2^31".into(),
        "rotated=both".into(),
        "rotated=timestamp".into(),
        "rotated=snapshot".into(),
        "rotated=neither".into(),
        "overlap=add-key".into(),
        "overlap=disjoint".into(),
        "hops=3".into(),
    ];
    finish(
        cfg,
        ev,
        Finish {
            level: "exploration",
            rule: "two-cycle histories over one datastore: cycle 1 stores timestamp/snapshot at V in {3, 2^31, 2^63}; 1..3 newer roots are published, one of which rotates the timestamp keys, the snapshot keys, both or neither (disjoint / add-key / remove-one / replace-one) and optionally the targets keys; cycle 2 serves a correctly signed repository at versions 1..2. Oracle by construction: rotated & targets not lower => must load; unrotated & lower => must be refused; targets keys unchanged & targets lower => must be refused. Fingerprint = all case parameters; every case is non-trivial.",
            assumptions: vec![
                "rotate-and-rotate-back inside one gap is not part of C14's quantifier (judged only by C03's permissive exemption)".into(),
                "threshold-only changes are not 'replacing keys' and are not generated here".into(),
            ],
            required_hist: required,
            min_evaluations: 1000,
        },
        start.elapsed(),
    )
}
