//! C04 — freeze protection: expired metadata is never trusted while enforcement is on.

use crate::client::{self, LoadOpts};
use crate::forge::*;
use crate::hist::*;
use crate::json::J;
use crate::obj;
use crate::rng::Rng;
use crate::run::*;
use crate::{base_time, fmt_time};
use chrono::Duration as CDur;
use futures::StreamExt;
use std::time::{Duration, Instant};
use tough::{ExpirationEnforcement, Prefix, TargetName};

const MARGINS: [(i64, &str); 4] = [(2, "2s"), (60, "1min"), (86_400, "1day"), (400 * 86_400, "400days")];
const ROLES: [&str; 4] = ["root", "timestamp", "snapshot", "targets"];

#[derive(Clone, Copy, Debug, PartialEq, Eq)]
enum Mode {
    Default,
    Safe,
    Unsafe,
}

#[derive(Clone, Copy, Debug, PartialEq, Eq)]
enum Op {
    Load,
    Read,
    Save,
}

#[derive(Clone, Debug)]
enum Traj {
    /// one load at T0 with a subset of roles expired
    LoadOnly,
    /// load at T0 (nothing expired), then read/save before or after the earliest expiry
    /// (`reload`: the second operation is another update cycle on the same datastore, against the
    /// same, unchanged repository, instead of a target operation)
    LoadThenTarget { after: bool, save: bool, which_earliest: usize, reload: bool },
    /// nothing expired; sequence of operations with the clock moving backwards before the last one
    Backward { ops: Vec<Op>, forward_first: bool, delta: usize },
}

#[derive(Clone, Debug)]
struct Case {
    expired: [bool; 4],
    margin: [usize; 4],
    mode: Mode,
    /// number of intermediate roots and whether each is expired
    intermediates: Vec<bool>,
    traj: Traj,
    consistent: bool,
}

fn gen_case(seed: u64, i: u64) -> Case {
    let mut r = Rng::for_case(seed, "C04", i);
    let mode = *r.pick(&[Mode::Default, Mode::Safe, Mode::Unsafe, Mode::Default, Mode::Safe]);
    let margin = [r.usize(4), r.usize(4), r.usize(4), r.usize(4)];
    let nint = r.usize(3);
    let intermediates: Vec<bool> = (0..nint).map(|_| r.chance(2, 3)).collect();
    let consistent = r.bool();
    let shape = r.usize(10);
    let (expired, traj) = if shape < 5 {
        // every subset appears: use the low 4 bits of the case index for the enumerated prefix
        let bits = if i < 16 * 12 { (i % 16) as usize } else { r.usize(16) };
        (
            [bits & 1 != 0, bits & 2 != 0, bits & 4 != 0, bits & 8 != 0],
            Traj::LoadOnly,
        )
    } else if shape < 8 {
        (
            [false; 4],
            Traj::LoadThenTarget {
                after: r.bool(),
                save: r.bool(),
                which_earliest: r.usize(4),
                reload: r.chance(1, 3),
            },
        )
    } else {
        let ops = match r.usize(4) {
            0 => vec![Op::Load, Op::Load],
            1 => vec![Op::Load, Op::Read],
            2 => vec![Op::Load, Op::Read, Op::Read],
            _ => vec![Op::Load, Op::Save, Op::Load],
        };
        (
            [false; 4],
            Traj::Backward {
                ops,
                forward_first: r.bool(),
                delta: r.usize(4),
            },
        )
    };
    Case {
        expired,
        margin,
        mode,
        intermediates,
        traj,
        consistent,
    }
}

fn opts(mode: Mode) -> LoadOpts {
    LoadOpts {
        limits: None,
        enforce: match mode {
            Mode::Default => None,
            Mode::Safe => Some(ExpirationEnforcement::Safe),
            Mode::Unsafe => Some(ExpirationEnforcement::Unsafe),
        },
    }
}

struct OpObs {
    op: Op,
    at: String,
    ok: bool,
    class: String,
    text: String,
}

async fn do_target_op(repo: &tough::Repository, save: bool, outdir: &std::path::Path) -> Result<(), tough::error::Error> {
    let name = TargetName::new("h.txt").unwrap();
    if save {
        repo.save_target(&name, outdir, Prefix::None).await
    } else {
        match repo.read_target(&name).await? {
            Some(mut s) => {
                while let Some(chunk) = s.next().await {
                    chunk?;
                }
                Ok(())
            }
            None => panic!("harness: target h.txt not found"),
        }
    }
}

fn run_case(w: &mut Worker, c: &Case) -> CaseOut {
    let mut out = CaseOut::default();
    let dir = w.case_dir();
    let ds = dir.join("ds");
    let outdir = dir.join("out");
    std::fs::create_dir_all(&ds).unwrap();
    std::fs::create_dir_all(&outdir).unwrap();
    let t0 = base_time();
    let enforcing = c.mode != Mode::Unsafe;

    // expiry instants per role
    let mut exp = [t0; 4];
    for k in 0..4 {
        let m = CDur::seconds(MARGINS[c.margin[k]].0);
        exp[k] = if c.expired[k] { t0 - m } else { t0 + m };
    }
    if let Traj::LoadThenTarget { which_earliest, .. } = &c.traj {
        // make one role strictly the earliest to expire
        for k in 0..4 {
            exp[k] = t0 + CDur::seconds(MARGINS[c.margin[k]].0) + CDur::days(500);
        }
        exp[*which_earliest] = t0 + CDur::seconds(MARGINS[c.margin[*which_earliest]].0);
    }
    if matches!(c.traj, Traj::Backward { .. }) {
        for e in exp.iter_mut() {
            *e = t0 + CDur::days(5000);
        }
    }

    // root chain: shipped v1 -> intermediates -> final (its expiry is exp[0])
    let cfg = RootKeys::simple();
    let mut ep = Epochs::single(cfg.clone(), c.consistent);
    let nroots = 1 + c.intermediates.len();
    ep.root_expires.clear();
    ep.cfgs.clear();
    for k in 0..nroots {
        ep.cfgs.push(cfg.clone());
        let is_final = k == nroots - 1;
        let e = if is_final {
            exp[0]
        } else if c.intermediates[k] {
            t0 - CDur::days(30) // expired stepping stone
        } else {
            t0 + CDur::days(3000)
        };
        ep.root_expires.push(fmt_time(e));
    }
    let shipped = ep.root_bytes(1);
    let mut served = Served::new(1, 1, Some(1), 1);
    served.ts_expires = fmt_time(exp[1]);
    served.snap_expires = fmt_time(exp[2]);
    served.tg_expires = fmt_time(exp[3]);
    let files = cycle_files(&ep, nroots as u64, &served);
    let lo = opts(c.mode);
    let mut observed: Vec<OpObs> = Vec::new();

    let mut load_at = |w: &mut Worker, at: chrono::DateTime<chrono::Utc>, observed: &mut Vec<OpObs>| -> Option<tough::Repository> {
        tough::verif_hooks::set_time(Some(at));
        let (o, repo) = run_cycle(w, &shipped, files.clone(), &ds, &lo);
        observed.push(OpObs {
            op: Op::Load,
            at: fmt_time(at),
            ok: o.ok,
            class: if o.watchdog { "Watchdog".into() } else { o.err_class.clone() },
            text: o.err_text.clone(),
        });
        repo
    };
    let target_at = |w: &mut Worker, repo: &tough::Repository, save: bool, at: chrono::DateTime<chrono::Utc>, observed: &mut Vec<OpObs>| {
        tough::verif_hooks::set_time(Some(at));
        let r = w.rt.block_on(async {
            tokio::time::timeout(client::watchdog(w.cfg.tier), do_target_op(repo, save, &outdir)).await
        });
        let (ok, class, text) = match r {
            Err(_) => (false, "Watchdog".to_string(), String::new()),
            Ok(Ok(())) => (true, String::new(), String::new()),
            Ok(Err(e)) => (false, client::err_class(&e), client::full_error(&e)),
        };
        observed.push(OpObs {
            op: if save { Op::Save } else { Op::Read },
            at: fmt_time(at),
            ok,
            class,
            text,
        });
    };
    let opname = |o: Op| match o {
        Op::Load => "load",
        Op::Read => "read_target",
        Op::Save => "save_target",
    };
    let modename = format!("{:?}", c.mode).to_lowercase();

    match &c.traj {
        Traj::LoadOnly => {
            let _ = load_at(w, t0, &mut observed);
            out.evals += 1;
            let o = &observed[0];
            let any_expired = c.expired.iter().any(|x| *x);
            let first_expired = (0..4).find(|k| c.expired[*k]).map(|k| ROLES[k]).unwrap_or("none");
            if o.class == "Watchdog" {
                out.inconc("watchdog");
            } else if enforcing && any_expired {
                if o.ok {
                    out.viol(
                        format!("expired-accepted:op=load:role={first_expired}"),
                        format!("expired roles {:?} (mode {modename}) but load succeeded at {}", c.expired, o.at),
                    );
                } else if o.class != "ExpiredMetadata" {
                    out.broken = Some(format!("expected expiry error, got {}: {}", o.class, o.text));
                } else {
                    // the reported role must be one that is expired
                    let named = ROLES.iter().position(|r| o.text.starts_with(r));
                    match named {
                        Some(k) if c.expired[k] => {}
                        _ => out.viol(
                            "unexpired-role-reported-expired:op=load",
                            format!("error '{}' but expired set is {:?}", o.text, c.expired),
                        ),
                    }
                }
            } else if !o.ok {
                if enforcing {
                    out.viol(
                        format!("unexpired-refused:op=load:mode={modename}"),
                        format!("nothing expired at {} but load failed: {}", o.at, o.text),
                    );
                } else {
                    out.viol(
                        "unsafe-mode-failed:op=load",
                        format!("enforcement off, expired {:?}, load failed: {}", c.expired, o.text),
                    );
                }
            }
            out.h(format!("traj=load-only:expired-count={}", c.expired.iter().filter(|x| **x).count()));
            for k in 0..4 {
                if c.expired[k] {
                    out.h(format!("expired={}:margin={}", ROLES[k], MARGINS[c.margin[k]].1));
                }
            }
        }
        Traj::LoadThenTarget { after, save, which_earliest, reload } => {
            let repo = load_at(w, t0, &mut observed);
            out.evals += 1;
            let Some(repo) = repo else {
                let o = &observed[0];
                if o.class == "Watchdog" {
                    out.inconc("watchdog");
                } else {
                    out.viol(
                        format!("unexpired-refused:op=load:mode={modename}"),
                        format!("nothing expired at T0 but load failed: {}", o.text),
                    );
                }
                w.cleanup(&dir);
                out.desc = Some(obj! {"note" => "load failed"});
                return out;
            };
            let earliest = exp[*which_earliest];
            let m2 = CDur::seconds(MARGINS[c.margin[(*which_earliest + 1) % 4]].0);
            let t1 = if *after {
                earliest + m2
            } else {
                t0 + (earliest - t0) / 2
            };
            if *reload {
                let _ = load_at(w, t1, &mut observed);
            } else {
                target_at(w, &repo, *save, t1, &mut observed);
            }
            out.evals += 1;
            let o = &observed[1];
            let op = if *reload { "second-load-same-datastore" } else { opname(o.op) };
            if o.class == "Watchdog" {
                out.inconc("watchdog");
            } else if *after && enforcing {
                if o.ok {
                    out.viol(
                        format!("expired-accepted:op={op}"),
                        format!("{} expired at {} but {op} at {} succeeded (mode {modename})", ROLES[*which_earliest], fmt_time(earliest), o.at),
                    );
                } else if o.class != "ExpiredMetadata" {
                    out.broken = Some(format!("expected expiry error from {op}, got {}: {}", o.class, o.text));
                } else if *reload && (0..4).any(|k| exp[k] < t1 && o.text.starts_with(ROLES[k])) {
                    // an update cycle may name any role that is expired at that time
                } else if !o.text.starts_with(ROLES[*which_earliest]) {
                    out.viol(
                        format!("unexpired-role-reported-expired:op={op}"),
                        format!("error '{}' but only {} is expired", o.text, ROLES[*which_earliest]),
                    );
                }
            } else if !o.ok {
                if enforcing {
                    out.viol(
                        format!("unexpired-refused:op={op}:mode={modename}"),
                        format!("earliest expiry {} but {op} at {} failed: {}", fmt_time(earliest), o.at, o.text),
                    );
                } else {
                    out.viol(format!("unsafe-mode-failed:op={op}"), format!("{op} failed: {}", o.text));
                }
            }
            out.h(format!(
                "traj=load-then-{}:{}:earliest={}",
                op,
                if *after { "after-expiry" } else { "before-expiry" },
                ROLES[*which_earliest]
            ));
        }
        Traj::Backward { ops, forward_first, delta } => {
            let d = CDur::seconds(MARGINS[*delta].0);
            let mut times = Vec::new();
            // all but the last operation move forward; the last one is earlier than the latest seen
            for k in 0..ops.len() {
                if k == ops.len() - 1 {
                    let prev: chrono::DateTime<chrono::Utc> = times[k - 1];
                    times.push(prev - d);
                } else if *forward_first {
                    times.push(t0 + CDur::days(10 * k as i64));
                } else {
                    times.push(t0);
                }
            }
            // with forward_first (and >= 3 operations) the last op is later than the first one but
            // earlier than the latest time the client recorded
            let mut repo: Option<tough::Repository> = None;
            for (k, op) in ops.iter().enumerate() {
                match op {
                    Op::Load => {
                        repo = load_at(w, times[k], &mut observed).or(repo);
                    }
                    Op::Read | Op::Save => {
                        if let Some(rp) = &repo {
                            target_at(w, rp, *op == Op::Save, times[k], &mut observed);
                        }
                    }
                }
                out.evals += 1;
            }
            // retries with the clock still rolled back: the refusal must not "wear off" (a refused
            // operation must not have recorded the earlier time)
            let retries = (*delta + ops.len()) % 3;
            let complete = observed.len() == ops.len();
            if complete {
                let last_op = *ops.last().unwrap();
                let back_time = *times.last().unwrap();
                for rtry in 0..retries {
                    let at = back_time + CDur::milliseconds(500 * rtry as i64);
                    match last_op {
                        Op::Load => {
                            let _ = load_at(w, at, &mut observed);
                        }
                        Op::Read | Op::Save => {
                            if let Some(rp) = &repo {
                                target_at(w, rp, last_op == Op::Save, at, &mut observed);
                            }
                        }
                    }
                    out.evals += 1;
                }
                out.h(format!("backward-retries={retries}"));
            }
            let last = if complete { ops.len() - 1 } else { observed.len() - 1 };
            for (k, o) in observed.iter().enumerate() {
                let op = opname(o.op);
                if o.class == "Watchdog" {
                    out.inconc("watchdog");
                    continue;
                }
                if k < last || observed.len() < ops.len() {
                    if !o.ok {
                        out.viol(
                            format!("unexpired-refused:op={op}:mode={modename}"),
                            format!("forward-moving operation {k} ({op} at {}) failed: {}", o.at, o.text),
                        );
                    }
                } else if enforcing {
                    if o.ok {
                        out.viol(
                            format!("clock-backwards-accepted:op={op}"),
                            format!("{op} at {} succeeded although the client had recorded a later time (delta {})", o.at, MARGINS[*delta].1),
                        );
                    } else if o.class != "SystemTimeSteppedBackward" {
                        out.broken = Some(format!("expected stepped-backward error, got {}: {}", o.class, o.text));
                    }
                } else if !o.ok {
                    out.viol(format!("unsafe-mode-failed:op={op}"), format!("{op} failed: {}", o.text));
                }
            }
            out.h(format!(
                "traj=backward:{}:{}",
                ops.iter().map(|o| opname(*o)).collect::<Vec<_>>().join(">"),
                if *forward_first { "forward-then-back" } else { "back" }
            ));
        }
    }
    tough::verif_hooks::set_time(Some(t0));
    out.h(format!("mode={modename}"));
    out.h(format!(
        "intermediate-roots={}:expired={}",
        c.intermediates.len(),
        c.intermediates.iter().filter(|x| **x).count()
    ));
    out.fingerprint = Some(format!(
        "{:?}|{:?}|{:?}|{:?}|{:?}",
        c.expired, c.margin, c.mode, c.intermediates, c.traj
    ));
    out.nontrivial = c.expired.iter().any(|x| *x) || !matches!(c.traj, Traj::LoadOnly);
    out.desc = Some(obj! {
        "mode" => modename.as_str(),
        "expiry(root,timestamp,snapshot,targets)" => J::A(exp.iter().map(|e| J::S(fmt_time(*e))).collect()),
        "intermediate_roots_expired" => format!("{:?}", c.intermediates),
        "trajectory" => format!("{:?}", c.traj),
        "consistent_snapshot" => c.consistent,
        "operations" => J::A(observed.iter().map(|o| obj!{
            "op" => opname(o.op), "virtual_time" => o.at.as_str(),
            "result" => if o.ok { "ok".to_string() } else { format!("{}: {}", o.class, o.text) },
        }).collect()),
    });
    w.cleanup(&dir);
    out
}

pub fn run(cfg: &Cfg) -> i32 {
    let start = Instant::now();
    let _ = crate::keys::pool();
    let n = cfg.tier.pick(15_000u64, 600_000);
    let budget = cfg.tier.pick(Duration::from_secs(240), Duration::from_secs(1200));
    let ev = par_run(cfg, n, budget, |w, i| Some(run_case(w, &gen_case(w.cfg.seed, i))));
    let mut required: Vec<String> = vec!["mode=default".into(), "mode=safe".into(), "mode=unsafe".into()];
    for k in 0..=4 {
        required.push(format!("traj=load-only:expired-count={k}"));
    }
    for r in ROLES {
        required.push(format!("traj=load-then-read_target:after-expiry:earliest={r}"));
        required.push(format!("traj=load-then-save_target:after-expiry:earliest={r}"));
        required.push(format!("traj=load-then-read_target:before-expiry:earliest={r}"));
        required.push(format!("traj=load-then-second-load-same-datastore:after-expiry:earliest={r}"));
        for m in MARGINS {
            required.push(format!("expired={r}:margin={}", m.1));
        }
    }
    required.push("traj=backward:load>load:back".into());
    required.push("traj=backward:load>read_target:back".into());
    required.push("traj=backward:load>read_target>read_target:forward-then-back".into());
    required.push("intermediate-roots=2:expired=2".into());
    required.push("backward-retries=1".into());
    required.push("backward-retries=2".into());
    finish(
        cfg,
        ev,
        Finish {
            level: "exploration",
            rule: "operations of the real client under a virtual clock (hook): every subset of {root,timestamp,snapshot,targets} expired by 2s/1min/1day/400days at load time (first 192 cases enumerate all subsets, then seeded); load followed by read_target/save_target before/after the earliest expiry; backward clock jumps before the last of load>load, load>read, load>read>read, load>save>load (optionally after a forward jump); enforcement default/Safe/Unsafe; 0..2 intermediate roots, expired or not. Oracle by construction incl. error class and reported role. Fingerprint = all parameters; non-trivial = something expired or a multi-operation trajectory.",
            assumptions: vec![
                "the boundary instant itself is never used (< vs <= is not fixed by the statement)".into(),
                "the hook replaces exactly the one Utc::now() sample in Datastore::system_time".into(),
            ],
            required_hist: required,
            min_evaluations: 5000,
        },
        start.elapsed(),
    )
}
