//! C01 — only metadata signed by a threshold of distinct authorised keys is trusted.

use crate::client::{self, LoadOpts};
use crate::forge::*;
use crate::json::{render, Style, J};
use crate::keys::{cached_sign, key, key_of, Alg};
use crate::memtransport::MemTransport;
use crate::obj;
use crate::rng::Rng;
use crate::run::*;
use std::collections::{BTreeMap, HashMap};
use std::sync::{Arc, Mutex, OnceLock};
use std::time::{Duration, Instant};

#[derive(Clone, Copy, Debug, PartialEq, Eq, Hash, PartialOrd, Ord)]
pub enum Site {
    ShippedRoot,
    RootHopOld,
    RootHopNew,
    /// like RootHopOld / RootHopNew, but both roots list the SAME root keys and only the threshold differs
    RootHopOldSame,
    RootHopNewSame,
    Timestamp,
    Snapshot,
    Targets,
    DelegD1,
    DelegD2,
}

pub const SITES: [Site; 10] = [
    Site::ShippedRoot,
    Site::RootHopOld,
    Site::RootHopNew,
    Site::RootHopOldSame,
    Site::RootHopNewSame,
    Site::Timestamp,
    Site::Snapshot,
    Site::Targets,
    Site::DelegD1,
    Site::DelegD2,
];

impl Site {
    pub fn name(self) -> &'static str {
        match self {
            Site::ShippedRoot => "shipped-root",
            Site::RootHopOld => "root-hop-old-keys",
            Site::RootHopNew => "root-hop-new-keys",
            Site::RootHopOldSame => "root-hop-old-keys-same-key-set",
            Site::RootHopNewSame => "root-hop-new-keys-same-key-set",
            Site::Timestamp => "timestamp",
            Site::Snapshot => "snapshot",
            Site::Targets => "targets",
            Site::DelegD1 => "delegated-d1",
            Site::DelegD2 => "delegated-d2",
        }
    }
}

/// One signature-list entry. `j` indexes the role's authorised keys.
#[derive(Clone, Copy, Debug, PartialEq, Eq, Hash)]
pub enum Tok {
    /// valid signature by authorised key j (a repeated V(j) is the "second valid sig by the same key")
    V(usize),
    /// corrupted signature of authorised key j
    C(usize),
    /// valid signature by authorised key j over other content
    O(usize),
    /// valid signature over this content by a key listed for another role only
    R,
    /// valid signature by a key that is in no key table
    U,
    /// genuine signature whose keyid is listed for the role but absent from the key table
    M,
}

impl Tok {
    fn s(self) -> String {
        match self {
            Tok::V(j) => format!("V{j}"),
            Tok::C(j) => format!("C{j}"),
            Tok::O(j) => format!("O{j}"),
            Tok::R => "R".into(),
            Tok::U => "U".into(),
            Tok::M => "M".into(),
        }
    }
}

#[derive(Clone, Copy, Debug, PartialEq, Eq, Hash)]
pub enum AlgMix {
    Ed,
    Ec,
    Rsa,
    Mixed,
}

#[derive(Clone, Copy, Debug, PartialEq, Eq, Hash)]
pub enum DupVar {
    SameBytes,
    Fresh,
    UpperKeyid,
}

#[derive(Clone, Debug)]
pub struct Case {
    pub site: Site,
    pub n: usize,
    pub t: u64,
    pub mix: AlgMix,
    pub dup: DupVar,
    pub toks: Vec<Tok>,
    pub consistent: bool,
}

const K_OTHER_ROOT: usize = 8;
const K_OTHER_TS: usize = 9;
const K_OTHER_SNAP: usize = 10;
const K_OTHER_TG: usize = 11;
const K_SIB: usize = 5;
const K_SIB2: usize = 4;
const K_M: usize = 6;
const K_U: usize = 7;

fn role_keys_for(n: usize, mix: AlgMix) -> Vec<usize> {
    (0..n)
        .map(|j| match mix {
            AlgMix::Ed => key_of(Alg::Ed25519, j),
            AlgMix::Ec => key_of(Alg::Ecdsa, j),
            AlgMix::Rsa => key_of(Alg::Rsa, j),
            AlgMix::Mixed => match j % 3 {
                0 => key_of(Alg::Rsa, j),
                1 => key_of(Alg::Ed25519, j),
                _ => key_of(Alg::Ecdsa, j),
            },
        })
        .collect()
}

fn mix_name(m: AlgMix) -> &'static str {
    match m {
        AlgMix::Ed => "ed25519",
        AlgMix::Ec => "ecdsa",
        AlgMix::Rsa => "rsa",
        AlgMix::Mixed => "mixed",
    }
}

/// Everything constant for (site, n, t, mix, consistent): file map without the document under
/// test, the signed portion of the document under test, where it is served, the shipped root.
pub struct Base {
    files: BTreeMap<String, Vec<u8>>,
    shipped_root: Vec<u8>,
    /// signed portion under test and the same content with another version ("other content")
    signed: J,
    other: J,
    /// extra valid signatures the document needs besides the list under test
    fixed_sigs: Vec<J>,
    /// path where the document under test is served (None: it is the shipped root)
    path: Option<String>,
    ks: Vec<usize>,
    rkey: usize,
    /// name of the delegated role under test
    deleg_name: Option<String>,
}

fn add_m(root_signed_j: &mut J, role: &str) {
    root_signed_j
        .at_mut("roles")
        .at_mut(role)
        .at_mut("keyids")
        .items_mut()
        .push(J::S(key(K_M).id()));
}

fn bump_version(j: &J) -> J {
    let mut o = j.clone();
    let v = o.at("version").as_u64().unwrap();
    o.set("version", v + 41);
    o
}

pub fn build_base(site: Site, n: usize, t: u64, mix: AlgMix, consistent: bool) -> Base {
    let ks = role_keys_for(n, mix);
    let under = RoleKeys {
        keys: ks.clone(),
        threshold: t,
    };
    let mut rk = RootKeys {
        root: RoleKeys::one(K_OTHER_ROOT),
        timestamp: RoleKeys::one(K_OTHER_TS),
        snapshot: RoleKeys::one(K_OTHER_SNAP),
        targets: RoleKeys::one(K_OTHER_TG),
    };
    let nopin = Pin {
        hash: false,
        length: false,
    };
    let mut files = BTreeMap::new();
    let tcontent = b"c01 target".to_vec();
    let tgt = vec![("t.txt".to_string(), target_entry(&tcontent, None))];
    files.insert(target_path(consistent, "t.txt", &tcontent), tcontent.clone());

    // helpers to finish the lower part of a repository given top-level key config and root version
    let finish = |files: &mut BTreeMap<String, Vec<u8>>,
                  rk: &RootKeys,
                  skip: Option<&str>,
                  tg_signed: J,
                  extra_meta: Vec<(String, J)>|
     -> (J, J, J) {
        // returns signed portions (ts, snap, tg)
        let mut meta = vec![("targets.json".to_string(), metafile(1, None, None))];
        meta.extend(extra_meta);
        let snap_signed = snapshot_signed(1, FAR, meta);
        let ts_signed = timestamp_signed(1, FAR, metafile(1, None, None));
        if skip != Some("targets") {
            files.insert(
                meta_path(consistent, 1, "targets"),
                render(&sign_with(&tg_signed, &rk.targets.keys[..1]), Style::Compact),
            );
        }
        if skip != Some("snapshot") {
            files.insert(
                meta_path(consistent, 1, "snapshot"),
                render(&sign_with(&snap_signed, &rk.snapshot.keys[..1]), Style::Compact),
            );
        }
        if skip != Some("timestamp") {
            files.insert(
                meta_path(consistent, 1, "timestamp"),
                render(&sign_with(&ts_signed, &rk.timestamp.keys[..1]), Style::Compact),
            );
        }
        (ts_signed, snap_signed, tg_signed)
    };
    let _ = nopin;

    match site {
        Site::Timestamp | Site::Snapshot | Site::Targets => {
            let (role, rkey) = match site {
                Site::Timestamp => ("timestamp", K_OTHER_SNAP),
                Site::Snapshot => ("snapshot", K_OTHER_TS),
                _ => ("targets", K_OTHER_TS),
            };
            match site {
                Site::Timestamp => rk.timestamp = under,
                Site::Snapshot => rk.snapshot = under,
                _ => rk.targets = under,
            }
            let mut rs = root_signed(1, consistent, FAR, &rk);
            add_m(&mut rs, role);
            let root_bytes = render(&sign_with(&rs, &[K_OTHER_ROOT]), Style::Compact);
            files.insert(meta_path(consistent, 1, "root"), root_bytes.clone());
            let (ts, snap, tg) = finish(&mut files, &rk, Some(role), targets_signed(1, FAR, tgt, None), vec![]);
            let signed = match site {
                Site::Timestamp => ts,
                Site::Snapshot => snap,
                _ => tg,
            };
            Base {
                files,
                shipped_root: root_bytes,
                other: bump_version(&signed),
                signed,
                fixed_sigs: vec![],
                path: Some(meta_path(consistent, 1, role)),
                ks,
                rkey,
                deleg_name: None,
            }
        }
        Site::ShippedRoot => {
            rk.root = under;
            let mut rs = root_signed(1, consistent, FAR, &rk);
            add_m(&mut rs, "root");
            finish(&mut files, &rk, None, targets_signed(1, FAR, tgt, None), vec![]);
            Base {
                files,
                shipped_root: vec![],
                other: bump_version(&rs),
                signed: rs,
                fixed_sigs: vec![],
                path: None,
                ks,
                rkey: K_OTHER_TS,
                deleg_name: None,
            }
        }
        Site::RootHopOld => {
            // v1: root role = keys under test; v2: root role = K_OTHER_ROOT
            let mut rk1 = rk.clone();
            rk1.root = under;
            let mut rs1 = root_signed(1, consistent, FAR, &rk1);
            add_m(&mut rs1, "root");
            let take = (t as usize).min(n);
            let root1 = render(&sign_with(&rs1, &ks[..take]), Style::Compact);
            files.insert(meta_path(consistent, 1, "root"), root1.clone());
            let rs2 = root_signed(2, consistent, FAR, &rk);
            let msg2 = signed_bytes(&rs2);
            let fixed = vec![sig_entry(&key(K_OTHER_ROOT).id(), &cached_sign(K_OTHER_ROOT, &msg2))];
            finish(&mut files, &rk, None, targets_signed(1, FAR, tgt, None), vec![]);
            Base {
                files,
                shipped_root: root1,
                other: bump_version(&rs2),
                signed: rs2,
                fixed_sigs: fixed,
                path: Some(meta_path(consistent, 2, "root")),
                ks,
                rkey: K_OTHER_TS,
                deleg_name: None,
            }
        }
        Site::RootHopNew => {
            let rs1 = root_signed(1, consistent, FAR, &rk);
            let root1 = render(&sign_with(&rs1, &[K_OTHER_ROOT]), Style::Compact);
            files.insert(meta_path(consistent, 1, "root"), root1.clone());
            let mut rk2 = rk.clone();
            rk2.root = under;
            let mut rs2 = root_signed(2, consistent, FAR, &rk2);
            add_m(&mut rs2, "root");
            let msg2 = signed_bytes(&rs2);
            let fixed = vec![sig_entry(&key(K_OTHER_ROOT).id(), &cached_sign(K_OTHER_ROOT, &msg2))];
            finish(&mut files, &rk, None, targets_signed(1, FAR, tgt, None), vec![]);
            Base {
                files,
                shipped_root: root1,
                other: bump_version(&rs2),
                signed: rs2,
                fixed_sigs: fixed,
                path: Some(meta_path(consistent, 2, "root")),
                ks,
                rkey: K_OTHER_TS,
                deleg_name: None,
            }
        }
        Site::RootHopOldSame | Site::RootHopNewSame => {
            // both roots list the same root keys; only the threshold differs between them
            let (t1, t2) = if site == Site::RootHopOldSame { (t, 1) } else { (1, t) };
            let mut rk1 = rk.clone();
            rk1.root = RoleKeys { keys: ks.clone(), threshold: t1 };
            let mut rs1 = root_signed(1, consistent, FAR, &rk1);
            add_m(&mut rs1, "root");
            let root1 = render(&sign_with(&rs1, &ks[..(t1 as usize).min(n)]), Style::Compact);
            files.insert(meta_path(consistent, 1, "root"), root1.clone());
            let mut rk2 = rk.clone();
            rk2.root = RoleKeys { keys: ks.clone(), threshold: t2 };
            let mut rs2 = root_signed(2, consistent, FAR, &rk2);
            add_m(&mut rs2, "root");
            finish(&mut files, &rk, None, targets_signed(1, FAR, tgt, None), vec![]);
            Base {
                files,
                shipped_root: root1,
                other: bump_version(&rs2),
                signed: rs2,
                fixed_sigs: vec![],
                path: Some(meta_path(consistent, 2, "root")),
                ks,
                rkey: K_OTHER_TS,
                deleg_name: None,
            }
        }
        Site::DelegD1 | Site::DelegD2 => {
            let rs = root_signed(1, consistent, FAR, &rk);
            let root_bytes = render(&sign_with(&rs, &[K_OTHER_ROOT]), Style::Compact);
            files.insert(meta_path(consistent, 1, "root"), root_bytes.clone());
            let all = Paths::Patterns(vec!["*".into()]);
            // entry for the role under test, with the M key id appended
            let mut under_entry = |name: &str| {
                let mut e = delegated_role_entry(name, &ks, t, &all, false);
                e.at_mut("keyids").items_mut().push(J::S(key(K_M).id()));
                e
            };
            let dcontent = b"delegated content".to_vec();
            files.insert(target_path(consistent, "d.txt", &dcontent), dcontent.clone());
            let dtargets = vec![("d.txt".to_string(), target_entry(&dcontent, None))];
            if site == Site::DelegD1 {
                let mut tk = ks.clone();
                tk.push(K_SIB);
                let delegs = delegations(
                    &tk,
                    vec![under_entry("d1"), delegated_role_entry("sib", &[K_SIB], 1, &all, false)],
                );
                let sib = targets_signed(1, FAR, vec![], None);
                files.insert(
                    meta_path(consistent, 1, "sib"),
                    render(&sign_with(&sib, &[K_SIB]), Style::Compact),
                );
                let d1 = targets_signed(1, FAR, dtargets, None);
                finish(
                    &mut files,
                    &rk,
                    None,
                    targets_signed(1, FAR, tgt, Some(delegs)),
                    vec![
                        ("d1.json".into(), metafile(1, None, None)),
                        ("sib.json".into(), metafile(1, None, None)),
                    ],
                );
                Base {
                    files,
                    shipped_root: root_bytes,
                    other: bump_version(&d1),
                    signed: d1,
                    fixed_sigs: vec![],
                    path: Some(meta_path(consistent, 1, "d1")),
                    ks,
                    rkey: K_SIB,
                    deleg_name: Some("d1".into()),
                }
            } else {
                // targets -> d1 (K_SIB) -> {d2 (under test), sib2 (K_SIB2)}
                let delegs_top = delegations(&[K_SIB], vec![delegated_role_entry("d1", &[K_SIB], 1, &all, false)]);
                let mut tk = ks.clone();
                tk.push(K_SIB2);
                let delegs_d1 = delegations(
                    &tk,
                    vec![under_entry("d2"), delegated_role_entry("sib2", &[K_SIB2], 1, &all, false)],
                );
                let d1 = targets_signed(1, FAR, vec![], Some(delegs_d1));
                files.insert(
                    meta_path(consistent, 1, "d1"),
                    render(&sign_with(&d1, &[K_SIB]), Style::Compact),
                );
                let sib2 = targets_signed(1, FAR, vec![], None);
                files.insert(
                    meta_path(consistent, 1, "sib2"),
                    render(&sign_with(&sib2, &[K_SIB2]), Style::Compact),
                );
                let d2 = targets_signed(1, FAR, dtargets, None);
                finish(
                    &mut files,
                    &rk,
                    None,
                    targets_signed(1, FAR, tgt, Some(delegs_top)),
                    vec![
                        ("d1.json".into(), metafile(1, None, None)),
                        ("d2.json".into(), metafile(1, None, None)),
                        ("sib2.json".into(), metafile(1, None, None)),
                    ],
                );
                Base {
                    files,
                    shipped_root: root_bytes,
                    other: bump_version(&d2),
                    signed: d2,
                    fixed_sigs: vec![],
                    path: Some(meta_path(consistent, 1, "d2")),
                    ks,
                    rkey: K_SIB2,
                    deleg_name: Some("d2".into()),
                }
            }
        }
    }
}

static BASES: OnceLock<Mutex<HashMap<String, Arc<Base>>>> = OnceLock::new();

fn base_for(c: &Case) -> Arc<Base> {
    let k = format!("{:?}/{}/{}/{:?}/{}", c.site, c.n, c.t, c.mix, c.consistent);
    let m = BASES.get_or_init(Default::default);
    if let Some(b) = m.lock().unwrap().get(&k) {
        return b.clone();
    }
    let b = Arc::new(build_base(c.site, c.n, c.t, c.mix, c.consistent));
    m.lock().unwrap().insert(k, b.clone());
    b
}

/// Render the signature list of a case into signature entries.
pub fn sig_list(b: &Base, c: &Case) -> Vec<J> {
    let msg = signed_bytes(&b.signed);
    let other = signed_bytes(&b.other);
    let mut seen: Vec<usize> = Vec::new();
    let mut out = b.fixed_sigs.clone();
    for tok in &c.toks {
        let e = match *tok {
            Tok::V(j) => {
                let k = b.ks[j];
                if seen.contains(&j) {
                    match c.dup {
                        DupVar::SameBytes => sig_entry(&key(k).id(), &cached_sign(k, &msg)),
                        DupVar::Fresh => sig_entry(&key(k).id(), &key(k).sign(&msg)),
                        DupVar::UpperKeyid => sig_entry(&key(k).id().to_uppercase(), &key(k).sign(&msg)),
                    }
                } else {
                    seen.push(j);
                    sig_entry(&key(k).id(), &cached_sign(k, &msg))
                }
            }
            Tok::C(j) => {
                let k = b.ks[j];
                let mut s = cached_sign(k, &msg);
                let mid = s.len() / 2;
                s[mid] ^= 0x10;
                sig_entry(&key(k).id(), &s)
            }
            Tok::O(j) => {
                let k = b.ks[j];
                sig_entry(&key(k).id(), &cached_sign(k, &other))
            }
            Tok::R => sig_entry(&key(b.rkey).id(), &cached_sign(b.rkey, &msg)),
            Tok::U => sig_entry(&key(K_U).id(), &cached_sign(K_U, &msg)),
            Tok::M => sig_entry(&key(K_M).id(), &cached_sign(K_M, &msg)),
        };
        out.push(e);
    }
    out
}

pub fn good_count(c: &Case) -> u64 {
    let mut seen: Vec<usize> = Vec::new();
    for t in &c.toks {
        if let Tok::V(j) = t {
            if !seen.contains(j) {
                seen.push(*j);
            }
        }
    }
    seen.len() as u64
}

fn kinds_string(c: &Case) -> String {
    // multiset of kinds with repeated V(j) shown as V2
    let mut seen: Vec<usize> = Vec::new();
    let mut ks: Vec<String> = c
        .toks
        .iter()
        .map(|t| match t {
            Tok::V(j) => {
                if seen.contains(j) {
                    "V2".to_string()
                } else {
                    seen.push(*j);
                    "V".to_string()
                }
            }
            Tok::C(_) => "C".into(),
            Tok::O(_) => "O".into(),
            Tok::R => "R".into(),
            Tok::U => "U".into(),
            Tok::M => "M".into(),
        })
        .collect();
    ks.sort();
    if ks.is_empty() {
        "none".into()
    } else {
        ks.join("+")
    }
}

fn nontrivial(c: &Case) -> bool {
    let good = good_count(c);
    let expect = good >= c.t;
    let has_valid_noncounting = c.toks.iter().enumerate().any(|(i, t)| match t {
        Tok::R | Tok::M | Tok::U | Tok::O(_) => true,
        Tok::V(j) => c.toks[..i].contains(&Tok::V(*j)),
        Tok::C(_) => false,
    });
    let has_noncounting = has_valid_noncounting || c.toks.iter().any(|t| matches!(t, Tok::C(_)));
    if expect {
        has_noncounting || good == c.t
    } else {
        has_valid_noncounting || good + 1 == c.t
    }
}

fn describe(c: &Case) -> J {
    obj! {
        "site" => c.site.name(),
        "n_keys" => c.n,
        "threshold" => c.t,
        "algorithms" => mix_name(c.mix),
        "duplicate_variant" => format!("{:?}", c.dup),
        "consistent_snapshot" => c.consistent,
        "signature_list" => J::A(c.toks.iter().map(|t| J::S(t.s())).collect()),
        "distinct_valid_authorised" => good_count(c),
        "expected" => if good_count(c) >= c.t { "accept" } else { "reject" },
    }
}

/// Enumerate token lists of exactly `len` with canonical key labelling (a new key index may only
/// be the smallest unused one).
fn enum_lists(n: usize, len: usize, out: &mut Vec<Vec<Tok>>) {
    fn rec(n: usize, len: usize, cur: &mut Vec<Tok>, maxj: usize, out: &mut Vec<Vec<Tok>>) {
        if cur.len() == len {
            out.push(cur.clone());
            return;
        }
        for j in 0..n.min(maxj + 1) {
            for mk in [Tok::V as fn(usize) -> Tok, Tok::C, Tok::O] {
                cur.push(mk(j));
                rec(n, len, cur, maxj.max(j + 1), out);
                cur.pop();
            }
        }
        for t in [Tok::R, Tok::U, Tok::M] {
            cur.push(t);
            rec(n, len, cur, maxj, out);
            cur.pop();
        }
    }
    rec(n, len, &mut Vec::new(), 0, out);
}

fn site_ok(site: Site, n: usize, t: u64) -> bool {
    // the shipped root of the root-hop-old site must itself be valid
    !((site == Site::RootHopOld || site == Site::RootHopOldSame) && t as usize > n)
}

fn gen_cases(cfg: &Cfg) -> Vec<Case> {
    let mut v = Vec::new();
    // enumerated part: all lists up to length 2 (quick) / 3 (thorough) for a grid of (n,t)
    let maxlen = cfg.tier.pick(2, 3);
    let grid: &[(usize, u64)] = &[(1, 1), (1, 2), (2, 1), (2, 2), (2, 3), (3, 2), (3, 3), (4, 2), (4, 4)];
    let mut rr = 0usize;
    for site in SITES {
        for &(n, t) in grid {
            if !site_ok(site, n, t) {
                continue;
            }
            for len in 0..=maxlen {
                let mut lists = Vec::new();
                enum_lists(n, len, &mut lists);
                for toks in lists {
                    rr += 1;
                    // rotate cheap dimensions deterministically so that every value occurs often
                    let mix = [AlgMix::Ed, AlgMix::Mixed, AlgMix::Ec, AlgMix::Rsa][rr % 4];
                    let dup = [DupVar::SameBytes, DupVar::Fresh, DupVar::UpperKeyid][rr % 3];
                    v.push(Case {
                        site,
                        n,
                        t,
                        mix,
                        dup,
                        toks,
                        consistent: rr % 2 == 0,
                    });
                }
            }
        }
    }
    // random part: lists up to length 5, all (n,t) in 1..4
    let nrand = cfg.tier.pick(12_000u64, 250_000);
    for i in 0..nrand {
        let mut r = Rng::for_case(cfg.seed, "C01", i);
        let site = *r.pick(&SITES);
        let n = 1 + r.usize(4);
        let mut t = 1 + r.below(4);
        if !site_ok(site, n, t) {
            t = n as u64;
        }
        let len = r.usize(6);
        let mut toks = Vec::new();
        for _ in 0..len {
            let j = r.usize(n);
            toks.push(match r.usize(9) {
                0..=3 => Tok::V(j),
                4 => Tok::C(j),
                5 => Tok::O(j),
                6 => Tok::R,
                7 => Tok::U,
                _ => Tok::M,
            });
        }
        v.push(Case {
            site,
            n,
            t,
            mix: *r.pick(&[AlgMix::Ed, AlgMix::Ec, AlgMix::Rsa, AlgMix::Mixed]),
            dup: *r.pick(&[DupVar::SameBytes, DupVar::Fresh, DupVar::UpperKeyid]),
            toks,
            consistent: r.bool(),
        });
    }
    v
}

fn run_load_case(w: &mut Worker, c: &Case) -> CaseOut {
    let mut out = CaseOut::default();
    let b = base_for(c);
    let env = envelope(b.signed.clone(), sig_list(&b, c));
    let doc = render(&env, Style::Compact);
    let mut files = b.files.clone();
    let shipped = match &b.path {
        Some(p) => {
            files.insert(p.clone(), doc);
            b.shipped_root.clone()
        }
        None => {
            files.insert(meta_path(c.consistent, 1, "root"), doc.clone());
            doc
        }
    };
    let t = MemTransport::new(files);
    let dir = w.case_dir();
    let wd = client::watchdog(w.cfg.tier);
    let res = w.rt.block_on(client::load(&shipped, &t, &dir, &LoadOpts::default(), wd));
    let good = good_count(c);
    let expect_accept = good >= c.t;
    out.evals = 1;
    let (accepted, note) = match &res {
        Ok(repo) => match c.site {
            Site::RootHopOld | Site::RootHopNew | Site::RootHopOldSame | Site::RootHopNewSame => {
                let v = repo.root().signed.version.get();
                (v == 2, format!("load ok, trusted root version {v}"))
            }
            Site::DelegD1 | Site::DelegD2 => {
                let name = b.deleg_name.as_deref().unwrap();
                let loaded = repo.delegated_role(name).map_or(false, |r| r.targets.is_some());
                (loaded, format!("load ok, role {name} loaded={loaded}"))
            }
            _ => (true, "load ok".to_string()),
        },
        Err(e) => (false, format!("load failed: {}", e.text())),
    };
    if let Err(client::LoadErr::Watchdog) = res {
        out.inconc("watchdog");
    } else if accepted && !expect_accept {
        out.viol(
            format!("accept:below-threshold:site={}:kinds={}", c.site.name(), kinds_string(c)),
            format!("{good} distinct valid authorised keys < threshold {} but document trusted ({note})", c.t),
        );
    } else if !accepted && expect_accept {
        // a failure for a non-signature reason would be a harness problem; signature errors are violations
        let txt = note.clone();
        if txt.contains("ignature") || txt.contains("threshold") || txt.contains("erif") {
            out.viol(
                format!("reject:meets-threshold:site={}:kinds={}", c.site.name(), kinds_string(c)),
                format!("{good} distinct valid authorised keys >= threshold {} but not trusted ({note})", c.t),
            );
        } else {
            out.broken = Some(format!("expected accept, got unrelated failure: {note} for {:?}", c));
        }
    }
    out.h(format!("site={}", c.site.name()));
    out.h(format!(
        "site={}:{}",
        c.site.name(),
        if expect_accept { "expect-accept" } else { "expect-reject" }
    ));
    out.h(format!("alg={}", mix_name(c.mix)));
    for tk in &c.toks {
        out.h(format!(
            "kind={}",
            match tk {
                Tok::V(_) => "V",
                Tok::C(_) => "C",
                Tok::O(_) => "O",
                Tok::R => "R",
                Tok::U => "U",
                Tok::M => "M",
            }
        ));
    }
    if kinds_string(c).contains("V2") {
        out.h(format!("kind=V2:{:?}", c.dup));
    }
    out.fingerprint = Some(format!(
        "{:?}|{}|{}|{:?}|{:?}|{:?}",
        c.site, c.n, c.t, c.mix, c.dup, c.toks
    ));
    out.nontrivial = nontrivial(c);
    let mut d = describe(c);
    d.set("observed", note);
    d.set("requests", J::A(t.log_paths().into_iter().map(J::S).collect()));
    out.desc = Some(d);
    w.cleanup(&dir);
    out
}

// ---- layer (ii): direct calls of the public verify_role functions --------------------------------

struct ApiCase {
    deleg: bool,
    n: usize,
    t: u64,
    mix: AlgMix,
    dup: DupVar,
    first: Vec<Tok>,
    maxlen: usize,
}

fn run_api_case(c: &ApiCase) -> CaseOut {
    use tough::schema::{Root, Signed, Targets};
    let mut out = CaseOut::default();
    let site = if c.deleg { Site::DelegD1 } else { Site::Timestamp };
    let proto = Case {
        site,
        n: c.n,
        t: c.t,
        mix: c.mix,
        dup: c.dup,
        toks: vec![],
        consistent: false,
    };
    let b = base_for(&proto);
    // parse the delegating document once
    let root: Option<Signed<Root>> = if c.deleg {
        None
    } else {
        Some(serde_json::from_slice(&b.shipped_root).expect("root parses"))
    };
    let top: Option<Signed<Targets>> = if c.deleg {
        Some(serde_json::from_slice(&b.files[&meta_path(false, 1, "targets")]).expect("targets parses"))
    } else {
        None
    };
    let mut lists: Vec<Vec<Tok>> = Vec::new();
    let rest_max = c.maxlen - c.first.len();
    for len in 0..=rest_max {
        let mut l = Vec::new();
        // no canonical-labelling restriction here: the suffix may use any key index
        fn rec(n: usize, len: usize, cur: &mut Vec<Tok>, out: &mut Vec<Vec<Tok>>) {
            if cur.len() == len {
                out.push(cur.clone());
                return;
            }
            for j in 0..n {
                for mk in [Tok::V as fn(usize) -> Tok, Tok::C, Tok::O] {
                    cur.push(mk(j));
                    rec(n, len, cur, out);
                    cur.pop();
                }
            }
            for t in [Tok::R, Tok::U, Tok::M] {
                cur.push(t);
                rec(n, len, cur, out);
                cur.pop();
            }
        }
        rec(c.n, len, &mut Vec::new(), &mut l);
        lists.extend(l);
    }
    let mut distinct = 0u64;
    for suffix in lists {
        let mut toks = c.first.clone();
        toks.extend(suffix);
        let case = Case {
            toks,
            ..proto.clone()
        };
        let env = envelope(b.signed.clone(), sig_list(&b, &case));
        let bytes = render(&env, Style::Compact);
        let good = good_count(&case);
        let expect = good >= c.t;
        let ok = if c.deleg {
            let role: Signed<Targets> = serde_json::from_slice(&bytes).expect("role parses");
            top.as_ref()
                .unwrap()
                .signed
                .delegations
                .as_ref()
                .unwrap()
                .verify_role(&role, "d1")
                .is_ok()
        } else {
            let ts: Signed<tough::schema::Timestamp> = serde_json::from_slice(&bytes).expect("ts parses");
            root.as_ref().unwrap().signed.verify_role(&ts).is_ok()
        };
        out.evals += 1;
        if nontrivial(&case) {
            distinct += 1;
        }
        let which = if c.deleg { "api-delegations" } else { "api-root" };
        if ok && !expect {
            out.viol(
                format!("accept:below-threshold:site={which}:kinds={}", kinds_string(&case)),
                format!("verify_role Ok with {good} distinct valid authorised keys < threshold {}: {:?}", c.t, case.toks),
            );
        } else if !ok && expect {
            out.viol(
                format!("reject:meets-threshold:site={which}:kinds={}", kinds_string(&case)),
                format!("verify_role Err with {good} distinct valid authorised keys >= threshold {}: {:?}", c.t, case.toks),
            );
        }
    }
    out.h(if c.deleg { "site=api-delegations" } else { "site=api-root" });
    // every list under this prefix is a distinct fingerprint; report the count through `extra`
    out.fingerprint = Some(format!("api|{}|{}|{}|{:?}|{:?}|{:?}", c.deleg, c.n, c.t, c.mix, c.dup, c.first));
    out.nontrivial = distinct > 0;
    out.desc = Some(obj! {
        "layer" => "direct verify_role calls",
        "delegations" => c.deleg,
        "n_keys" => c.n, "threshold" => c.t, "algorithms" => mix_name(c.mix),
        "prefix" => J::A(c.first.iter().map(|t| J::S(t.s())).collect()),
        "max_len" => c.maxlen,
        "lists_judged" => out.evals,
        "nontrivial_lists" => distinct,
    });
    out
}

pub fn run(cfg: &Cfg) -> i32 {
    let start = Instant::now();
    let _ = crate::keys::pool();
    let cases = gen_cases(cfg);
    let budget = cfg.tier.pick(Duration::from_secs(240), Duration::from_secs(1500));
    let mut ev = par_run(cfg, cases.len() as u64, budget, |w, i| {
        cases.get(i as usize).map(|c| run_load_case(w, c))
    });

    // layer (ii)
    if cfg.replay.is_none() {
        let mut api = Vec::new();
        let maxlen = cfg.tier.pick(4, 5);
        let mut rr = 0;
        for deleg in [false, true] {
            for n in 1..=cfg.tier.pick(3usize, 4usize) {
                for t in 1..=4u64 {
                    // split the space by the first token so that work spreads over the workers
                    let mut firsts: Vec<Vec<Tok>> = vec![vec![]];
                    firsts.clear();
                    let mut one = Vec::new();
                    enum_lists(n, 1, &mut one);
                    // canonical first token (key 0) is enough; suffixes are unrestricted
                    firsts.extend(one);
                    for first in firsts {
                        rr += 1;
                        api.push(ApiCase {
                            deleg,
                            n,
                            t,
                            mix: [AlgMix::Ed, AlgMix::Mixed, AlgMix::Ec][rr % 3],
                            dup: [DupVar::SameBytes, DupVar::Fresh, DupVar::UpperKeyid][rr % 3],
                            first,
                            maxlen,
                        });
                    }
                    // also the empty list and lists not starting with the canonical tokens are covered
                    // by the load layer; the empty list here:
                    api.push(ApiCase {
                        deleg,
                        n,
                        t,
                        mix: AlgMix::Ed,
                        dup: DupVar::SameBytes,
                        first: vec![],
                        maxlen: 0,
                    });
                }
            }
        }
        let mut c2 = cfg.clone();
        c2.replay = None;
        let ev2 = par_run(&c2, api.len() as u64, budget, |_w, i| api.get(i as usize).map(run_api_case));
        let api_evals = ev2.evaluations;
        merge(&mut ev, ev2);
        ev.extra.push(("api_level_lists_judged".into(), J::U(api_evals)));
    }
    ev.extra.push(("load_level_cases".into(), J::U(cases.len() as u64)));
    crate::memcheck::run(cfg, &mut ev, crate::memcheck::Leg { processes: 16, modulus: 64, limit: Duration::from_secs(700) });

    let mut required: Vec<String> = SITES.iter().map(|s| format!("site={}", s.name())).collect();
    for s in SITES {
        required.push(format!("site={}:expect-accept", s.name()));
        required.push(format!("site={}:expect-reject", s.name()));
    }
    for k in ["V", "C", "O", "R", "U", "M"] {
        required.push(format!("kind={k}"));
    }
    required.push("site=api-root".into());
    required.push("site=api-delegations".into());
    finish(
        cfg,
        ev,
        Finish {
            level: "exploration",
            rule: "load-level: (site, n keys, threshold, algorithms, duplicate variant, signature list) — all lists up to length 2 (quick) / 3 (thorough) with canonical key labelling over a grid of (n,t), plus seeded random lists up to length 5 over n,t in 1..4; api-level: every list up to length 4 (quick) / 5 (thorough) under each first token, judged by direct verify_role calls (counted in evaluations, one fingerprint per prefix). Non-trivial: expected-reject with a cryptographically valid but non-counting entry or one short of the threshold; expected-accept with a non-counting entry or exactly at threshold.",
            assumptions: vec![
                "ground truth by construction: the generator knows which entries are valid signatures of distinct authorised keys".into(),
                "aws-lc-rs signing/verification primitives are correct".into(),
                "thresholds/keys beyond 4 and lists beyond 5 are out of reach".into(),
            ],
            required_hist: required,
            min_evaluations: 1000,
        },
        start.elapsed(),
    )
}
