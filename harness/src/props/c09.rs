//! C09 — work and data taken from an untrusted repository are bounded.

use crate::client::{self, LoadOpts};
use crate::forge::*;
use crate::json::{render, Style, J};
use crate::memtransport::{Chunking, Fault, MemTransport};
use crate::obj;
use crate::rng::Rng;
use crate::run::*;
use std::collections::BTreeMap;
use std::time::{Duration, Instant};
use tough::Limits;

const CHUNK: u64 = 64;

#[derive(Clone, Copy, Debug, PartialEq, Eq)]
enum Role {
    Root2,
    Timestamp,
    Snapshot,
    Targets,
    Delegated,
}
const ROLES: [Role; 5] = [Role::Root2, Role::Timestamp, Role::Snapshot, Role::Targets, Role::Delegated];

fn rname(r: Role) -> &'static str {
    match r {
        Role::Root2 => "root",
        Role::Timestamp => "timestamp",
        Role::Snapshot => "snapshot",
        Role::Targets => "targets",
        Role::Delegated => "delegated",
    }
}

#[derive(Clone, Debug)]
enum Kind {
    /// configured limit of `role` = size + off (or special values), no pinned length for that role
    Limit { role: Role, limit: LimitVal, big_delegated: bool },
    /// the parent document pins `size + off` as length of `role` (snapshot/targets/delegated)
    Pinned { role: Role, off: i64, big_delegated: bool, pin_targets_too: bool },
    /// one request is answered with an endless or oversized stream
    Stream { role: Role, endless: bool, chunk: usize, pinned: bool },
    /// `tail`: what the server answers for the root file AFTER the last newer root: 0 nothing (404),
    /// 1 the last root's own bytes again (same version under the next name), 2 an older root's bytes
    RootChain { max_updates: u64, chain: u64, tail: u8 },
    Graph { graph: &'static str },
}

#[derive(Clone, Copy, Debug, PartialEq, Eq)]
enum LimitVal {
    Zero,
    SizeMinus1,
    Size,
    SizePlus1,
    Default,
    Huge,
}

#[derive(Clone, Debug)]
struct Case {
    kind: Kind,
    consistent: bool,
}

struct Repo {
    files: BTreeMap<String, Vec<u8>>,
    root1: Vec<u8>,
    /// path and size of each role's file
    paths: BTreeMap<&'static str, (String, u64)>,
}

/// Hand-built repository: root v1 (+ optional v2), timestamp, snapshot, targets -> d1.
/// `pins`: offsets added to the true length when the parent pins a length (None = not pinned).
fn build_repo(consistent: bool, with_root2: bool, big_delegated: bool, pin_snap: Option<i64>, pin_tg: Option<i64>, pin_d1: Option<i64>) -> Repo {
    let keys = RootKeys::simple();
    let st = Style::Compact;
    let mut files = BTreeMap::new();
    let mut paths = BTreeMap::new();
    let root1 = render(&sign_with(&root_signed(1, consistent, FAR, &keys), &keys.root.keys), st);
    files.insert(meta_path(consistent, 1, "root"), root1.clone());
    if with_root2 {
        let r2 = render(&sign_with(&root_signed(2, consistent, FAR, &keys), &keys.root.keys), st);
        paths.insert("root", (meta_path(consistent, 2, "root"), r2.len() as u64));
        files.insert(meta_path(consistent, 2, "root"), r2);
    }
    let n_d = if big_delegated { 40 } else { 1 };
    let dt: Vec<(String, J)> = (0..n_d)
        .map(|i| (format!("d/file-{i}.bin"), target_entry(format!("delegated {i}").as_bytes(), None)))
        .collect();
    let d1 = render(&sign_with(&targets_signed(1, FAR, dt, None), &[5]), st);
    let delegs = delegations(&[5], vec![delegated_role_entry("d1", &[5], 1, &Paths::Patterns(vec!["d/*".into()]), false)]);
    let tg = render(
        &sign_with(
            &targets_signed(1, FAR, vec![("a.txt".into(), target_entry(b"top", None))], Some(delegs)),
            &keys.targets.keys,
        ),
        st,
    );
    let adj = |len: usize, off: Option<i64>| off.map(|o| (len as i64 + o).max(0) as u64);
    let snap = render(
        &sign_with(
            &snapshot_signed(
                1,
                FAR,
                vec![
                    ("targets.json".into(), metafile(1, adj(tg.len(), pin_tg), None)),
                    ("d1.json".into(), metafile(1, adj(d1.len(), pin_d1), None)),
                ],
            ),
            &keys.snapshot.keys,
        ),
        st,
    );
    let ts = render(
        &sign_with(&timestamp_signed(1, FAR, metafile(1, adj(snap.len(), pin_snap), None)), &keys.timestamp.keys),
        st,
    );
    for (name, role, bytes) in [("delegated", "d1", d1), ("targets", "targets", tg), ("snapshot", "snapshot", snap), ("timestamp", "timestamp", ts)] {
        let p = meta_path(consistent, 1, role);
        paths.insert(name, (p.clone(), bytes.len() as u64));
        files.insert(p, bytes);
    }
    Repo { files, root1, paths }
}

fn gen_cases(cfg: &Cfg) -> Vec<Case> {
    let mut v = Vec::new();
    let mut rr = 0;
    let mut push = |v: &mut Vec<Case>, kind: Kind| {
        rr += 1;
        v.push(Case { kind, consistent: rr % 2 == 0 });
    };
    for role in ROLES {
        for limit in [LimitVal::Zero, LimitVal::SizeMinus1, LimitVal::Size, LimitVal::SizePlus1, LimitVal::Default, LimitVal::Huge] {
            for big in [false, true] {
                push(&mut v, Kind::Limit { role, limit, big_delegated: big });
                push(&mut v, Kind::Limit { role, limit, big_delegated: big });
            }
        }
    }
    for role in [Role::Snapshot, Role::Targets, Role::Delegated] {
        for off in [-40, -1, 0, 1, 7, 1000] {
            for big in [false, true] {
                for pin_targets_too in [false, true] {
                    push(&mut v, Kind::Pinned { role, off, big_delegated: big, pin_targets_too });
                    push(&mut v, Kind::Pinned { role, off, big_delegated: big, pin_targets_too });
                }
            }
        }
    }
    for role in ROLES {
        for endless in [true, false] {
            for chunk in [1usize, 64, 4096] {
                for pinned in [false, true] {
                    push(&mut v, Kind::Stream { role, endless, chunk, pinned });
                    push(&mut v, Kind::Stream { role, endless, chunk, pinned });
                }
            }
        }
    }
    for max_updates in [1u64, 2, 3, 5, 8] {
        for extra in [-1i64, 0, 1, 50] {
            let chain = (max_updates as i64 + extra).max(0) as u64;
            push(&mut v, Kind::RootChain { max_updates, chain, tail: 0 });
            push(&mut v, Kind::RootChain { max_updates, chain, tail: 0 });
            if chain >= 1 {
                push(&mut v, Kind::RootChain { max_updates, chain, tail: 1 });
                push(&mut v, Kind::RootChain { max_updates, chain, tail: 2 });
            }
        }
    }
    for graph in ["tree", "diamond", "self", "mutual", "three-cycle", "deep-chain"] {
        push(&mut v, Kind::Graph { graph });
        push(&mut v, Kind::Graph { graph });
    }
    // seeded repetition of everything with random picks (kept small: the space above is the point)
    let n = cfg.tier.pick(600u64, 200_000);
    for i in 0..n {
        let mut r = Rng::for_case(cfg.seed, "C09", i);
        let role = *r.pick(&ROLES);
        let kind = match r.usize(5) {
            0 => Kind::Limit {
                role,
                limit: *r.pick(&[LimitVal::Zero, LimitVal::SizeMinus1, LimitVal::Size, LimitVal::SizePlus1, LimitVal::Default, LimitVal::Huge]),
                big_delegated: r.bool(),
            },
            1 => Kind::Pinned {
                role: *r.pick(&[Role::Snapshot, Role::Targets, Role::Delegated]),
                off: r.range(0, 80) as i64 - 40,
                big_delegated: r.bool(),
                pin_targets_too: r.bool(),
            },
            2 => Kind::Stream { role, endless: r.bool(), chunk: *r.pick(&[1usize, 7, 64, 4096]), pinned: r.bool() },
            3 => {
                let m = 1 + r.below(8);
                Kind::RootChain { max_updates: m, chain: r.below(m + 12), tail: r.below(3) as u8 }
            }
            _ => Kind::Graph { graph: *r.pick(&["tree", "diamond", "self", "mutual", "three-cycle", "deep-chain"]) },
        };
        v.push(Case { kind, consistent: r.bool() });
    }
    v
}

/// Delegation graphs. Returns (files, shipped root, number of distinct delegations published, legit?)
fn build_graph(graph: &str, consistent: bool) -> (BTreeMap<String, Vec<u8>>, Vec<u8>, u64, bool) {
    let keys = RootKeys::simple();
    let st = Style::Compact;
    let mut files = BTreeMap::new();
    let root1 = render(&sign_with(&root_signed(1, consistent, FAR, &keys), &keys.root.keys), st);
    files.insert(meta_path(consistent, 1, "root"), root1.clone());
    let all = Paths::Patterns(vec!["*".into()]);
    // adjacency: role -> children ; "targets" is the top
    let edges: Vec<(&str, Vec<&str>)> = match graph {
        "tree" => vec![("targets", vec!["A", "B"]), ("A", vec!["C", "D"]), ("B", vec!["E"]), ("C", vec![]), ("D", vec![]), ("E", vec![])],
        "diamond" => vec![("targets", vec!["A", "B"]), ("A", vec!["C"]), ("B", vec!["C"]), ("C", vec![])],
        "self" => vec![("targets", vec!["A"]), ("A", vec!["A"])],
        "mutual" => vec![("targets", vec!["A"]), ("A", vec!["B"]), ("B", vec!["A"])],
        "three-cycle" => vec![("targets", vec!["A"]), ("A", vec!["B"]), ("B", vec!["C"]), ("C", vec!["A"])],
        _ => vec![("targets", vec!["A"]), ("A", vec!["B"]), ("B", vec!["C"]), ("C", vec!["D"]), ("D", vec!["E"]), ("E", vec![])],
    };
    let legit = matches!(graph, "tree" | "diamond" | "deep-chain");
    let mut p = 0u64;
    let mut meta = vec![("targets.json".to_string(), metafile(1, None, None))];
    for (name, children) in &edges {
        p += children.len() as u64;
        let delegs = if children.is_empty() {
            None
        } else {
            Some(delegations(
                &[5],
                children.iter().map(|c| delegated_role_entry(c, &[5], 1, &all, false)).collect(),
            ))
        };
        let tlist = vec![(format!("{name}.txt"), target_entry(name.as_bytes(), None))];
        let doc = targets_signed(1, FAR, tlist, delegs);
        if *name == "targets" {
            files.insert(meta_path(consistent, 1, "targets"), render(&sign_with(&doc, &keys.targets.keys), st));
        } else {
            files.insert(meta_path(consistent, 1, name), render(&sign_with(&doc, &[5]), st));
            meta.push((format!("{name}.json"), metafile(1, None, None)));
        }
    }
    files.insert(
        meta_path(consistent, 1, "snapshot"),
        render(&sign_with(&snapshot_signed(1, FAR, meta), &keys.snapshot.keys), st),
    );
    files.insert(
        meta_path(consistent, 1, "timestamp"),
        render(&sign_with(&timestamp_signed(1, FAR, metafile(1, None, None)), &keys.timestamp.keys), st),
    );
    (files, root1, p, legit)
}

fn run_case(w: &mut Worker, c: &Case) -> CaseOut {
    let mut out = CaseOut::default();
    let dir = w.case_dir();
    let wd = client::watchdog(w.cfg.tier);
    let dflt = Limits::default();
    let small = Limits {
        max_root_updates: 4,
        ..dflt
    };
    out.evals = 1;
    match &c.kind {
        Kind::Limit { role, limit, big_delegated } => {
            // nothing pinned for the role under test (targets unpinned => delegated uses max_targets_size)
            let repo = build_repo(c.consistent, true, *big_delegated, None, None, None);
            let (path, size) = repo.paths[rname(*role)].clone();
            let lv = |configured_default: u64| match limit {
                LimitVal::Zero => 0,
                LimitVal::SizeMinus1 => size - 1,
                LimitVal::Size => size,
                LimitVal::SizePlus1 => size + 1,
                LimitVal::Default => configured_default,
                LimitVal::Huge => u64::MAX / 2,
            };
            let mut lim = small;
            // for targets/delegated both share max_targets_size: make sure the other file fits
            let bound = match role {
                Role::Root2 => {
                    lim.max_root_size = lv(dflt.max_root_size);
                    lim.max_root_size
                }
                Role::Timestamp => {
                    lim.max_timestamp_size = lv(dflt.max_timestamp_size);
                    lim.max_timestamp_size
                }
                Role::Snapshot => {
                    lim.max_snapshot_size = lv(dflt.max_snapshot_size);
                    lim.max_snapshot_size
                }
                Role::Targets | Role::Delegated => {
                    lim.max_targets_size = lv(dflt.max_targets_size);
                    lim.max_targets_size
                }
            };
            let other_fits = match role {
                Role::Targets => repo.paths["delegated"].1 <= bound,
                Role::Delegated => repo.paths["targets"].1 <= bound,
                _ => true,
            };
            let t = MemTransport::new(repo.files.clone());
            t.set_chunking(&path, Chunking::Fixed(CHUNK as usize));
            let res = w.rt.block_on(client::load(&repo.root1, &t, &dir, &LoadOpts { limits: Some(lim), enforce: None }, wd));
            let fits = size <= bound;
            judge_sized(&mut out, rname(*role), "configured", fits && other_fits, !fits, &res, t.pulled_max_single(&path), bound, *role == Role::Root2);
            out.h(format!("limit:{}:{:?}", rname(*role), limit));
            out.fingerprint = Some(format!("limit|{role:?}|{limit:?}|{big_delegated}|{}", c.consistent));
            out.nontrivial = !matches!(limit, LimitVal::Default | LimitVal::Huge);
            out.desc = Some(obj! {"kind" => "configured limit", "role" => rname(*role), "file_size" => size, "limit" => format!("{limit:?} = {bound}"),
                "delegated_role_larger_than_targets_json" => *big_delegated, "consistent_snapshot" => c.consistent,
                "bytes_pulled_for_file" => t.pulled_max_single(&path), "observed" => obs_text(&res)});
        }
        Kind::Pinned { role, off, big_delegated, pin_targets_too } => {
            let o = Some(*off);
            let (ps, mut pt, pd) = match role {
                Role::Snapshot => (o, None, None),
                Role::Targets => (None, o, None),
                _ => (None, None, o),
            };
            if *role == Role::Delegated && *pin_targets_too {
                pt = Some(0); // targets.json's own (true) length is pinned as well
            }
            let repo = build_repo(c.consistent, false, *big_delegated, ps, pt, pd);
            let (path, size) = repo.paths[rname(*role)].clone();
            let bound = (size as i64 + off).max(0) as u64;
            let t = MemTransport::new(repo.files.clone());
            t.set_chunking(&path, Chunking::Fixed(CHUNK as usize));
            let res = w.rt.block_on(client::load(&repo.root1, &t, &dir, &LoadOpts { limits: Some(small), enforce: None }, wd));
            let fits = size <= bound;
            judge_sized(&mut out, rname(*role), "pinned", fits, !fits, &res, t.pulled_max_single(&path), bound, false);
            out.h(format!("pinned:{}:{}", rname(*role), if *off < 0 { "file-larger-than-pinned" } else if *off == 0 { "exact" } else { "file-smaller-than-pinned" }));
            if *role == Role::Delegated && *big_delegated && fits {
                out.h("legit:delegated-larger-than-targets-json");
            }
            out.fingerprint = Some(format!("pinned|{role:?}|{off}|{big_delegated}|{pin_targets_too}|{}", c.consistent));
            out.nontrivial = true;
            out.desc = Some(obj! {"kind" => "length pinned by the parent document", "role" => rname(*role), "file_size" => size, "pinned_length" => bound,
                "delegated_role_larger_than_targets_json" => *big_delegated, "targets_json_length_also_pinned" => *pin_targets_too,
                "targets_json_size" => repo.paths["targets"].1, "consistent_snapshot" => c.consistent,
                "bytes_pulled_for_file" => t.pulled_max_single(&path), "observed" => obs_text(&res)});
        }
        Kind::Stream { role, endless, chunk, pinned } => {
            let pin = pinned.then_some(0i64);
            let (ps, pt, pd) = match role {
                Role::Snapshot => (pin, None, None),
                Role::Targets => (None, pin, None),
                Role::Delegated => (None, None, pin),
                _ => (None, None, None),
            };
            let repo = build_repo(c.consistent, true, false, ps, pt, pd);
            let (path, size) = repo.paths[rname(*role)].clone();
            let lim = Limits {
                max_root_size: 20_000,
                max_timestamp_size: 20_000,
                max_snapshot_size: 20_000,
                max_targets_size: 20_000,
                max_root_updates: 4,
            };
            let is_pinned = *pinned && matches!(role, Role::Snapshot | Role::Targets | Role::Delegated);
            let bound = if is_pinned { size } else { 20_000 };
            let t = MemTransport::new(repo.files.clone());
            t.set_chunking(&path, Chunking::Fixed(*chunk));
            {
                let mut g = t.inner.lock().unwrap();
                g.endless_chunk = *chunk;
                g.endless_stop = 3_000_000;
            }
            t.set_fault(&path, if *endless { Fault::Endless } else { Fault::Extend(50_000) });
            let res = w.rt.block_on(client::load(&repo.root1, &t, &dir, &LoadOpts { limits: Some(lim), enforce: None }, wd));
            let pulled = t.pulled_max_single(&path);
            let stop_hit = t.inner.lock().unwrap().endless_stop_hit;
            let kind = if is_pinned { "pinned" } else { "configured" };
            if pulled > bound + (*chunk as u64).max(1) || stop_hit {
                out.viol(
                    format!("over-bound:file={}:{kind}:stream", rname(*role)),
                    format!("{pulled} bytes pulled for {} although the bound is {bound} (chunk {chunk})", rname(*role)),
                );
            }
            match &res {
                Err(client::LoadErr::Watchdog) => out.inconc("watchdog"),
                Ok(repo_l) => {
                    // an oversized file must not have been accepted (for the root: v2 not trusted)
                    if !(*role == Role::Root2 && repo_l.root().signed.version.get() == 1) {
                        out.viol(
                            format!("over-bound:file={}:{kind}:accepted", rname(*role)),
                            format!("oversized/endless {} accepted", rname(*role)),
                        );
                    }
                }
                Err(_) => {}
            }
            out.h(format!("stream:{}:{}", rname(*role), if *endless { "endless" } else { "oversized" }));
            out.h(format!("stream:chunk={chunk}"));
            out.fingerprint = Some(format!("stream|{role:?}|{endless}|{chunk}|{pinned}|{}", c.consistent));
            out.nontrivial = true;
            out.desc = Some(obj! {"kind" => "endless/oversized answer", "role" => rname(*role), "endless" => *endless, "chunk" => *chunk,
                "bound" => bound, "bound_kind" => kind, "bytes_pulled_for_file" => pulled, "observed" => obs_text(&res)});
        }
        Kind::RootChain { max_updates, chain, tail } => {
            let keys = RootKeys::simple();
            let mut files = build_repo(c.consistent, false, false, None, None, None).files;
            let mut root1 = Vec::new();
            for v in 1..=(1 + chain) {
                let b = render(&sign_with(&root_signed(v, c.consistent, FAR, &keys), &keys.root.keys), Style::Compact);
                if v == 1 {
                    root1 = b.clone();
                }
                files.insert(meta_path(c.consistent, v, "root"), b);
            }
            if *tail > 0 {
                let src = if *tail == 1 { 1 + chain } else { (1 + chain).saturating_sub(1).max(1) };
                let b = files[&meta_path(c.consistent, src, "root")].clone();
                files.insert(meta_path(c.consistent, 2 + chain, "root"), b);
            }
            let t = MemTransport::new(files);
            // (a client that never stops asking ends here instead of hanging the check)
            t.set_max_requests(Some(10 * *max_updates as usize + 200));
            let lim = Limits {
                max_root_updates: *max_updates,
                ..dflt
            };
            let res = w.rt.block_on(client::load(&root1, &t, &dir, &LoadOpts { limits: Some(lim), enforce: None }, wd));
            let root_reqs = t.log_paths().iter().filter(|p| p.ends_with(".root.json")).count() as u64;
            if root_reqs > *max_updates {
                out.viol(
                    "root-requests>limit",
                    format!("{root_reqs} newer-root files requested with max_root_updates={max_updates} (chain of {chain})"),
                );
            }
            match &res {
                Err(client::LoadErr::Watchdog) => out.inconc("watchdog"),
                Ok(r) => {
                    let v = r.root().signed.version.get();
                    if v > 1 + *max_updates {
                        out.viol("root-updates>limit", format!("trusted root {v} after more than {max_updates} updates"));
                    }
                    if *chain < *max_updates && v != 1 + chain {
                        out.viol("short-chain-not-followed", format!("chain of {chain} < limit {max_updates} but trusted root is {v}"));
                    }
                }
                Err(e) => {
                    // (with a mis-named root file behind the chain the statement leaves the outcome open)
                    if *chain < *max_updates && *tail == 0 {
                        out.viol(
                            "short-chain-refused",
                            format!("chain of {chain} newer roots < limit {max_updates} but load failed: {}", e.text()),
                        );
                    }
                }
            }
            let rel = if *chain < *max_updates { "below" } else if *chain == *max_updates { "equal" } else { "above" };
            out.h(format!("root-chain:{rel}-limit"));
            out.h(format!("root-chain:tail={}", ["none", "same-version-again", "older-version"][*tail as usize]));
            out.fingerprint = Some(format!("chain|{max_updates}|{chain}|{tail}|{}", c.consistent));
            out.nontrivial = true;
            out.desc = Some(obj! {"kind" => "chain of valid newer roots", "max_root_updates" => *max_updates, "newer_roots_available" => *chain,
                "served_under_the_next_root_file_name" => ["nothing", "the last root again (same version)", "an older root"][*tail as usize],
                "root_files_requested" => root_reqs, "observed" => obs_text(&res)});
        }
        Kind::Graph { graph } => {
            let (files, root1, p, legit) = build_graph(graph, c.consistent);
            let t = MemTransport::new(files);
            let lim = Limits {
                max_root_updates: 2,
                ..dflt
            };
            let bound = 2 + 3 + p;
            let cap = 10 * bound + 50;
            t.set_max_requests(Some(cap as usize));
            let res = w.rt.block_on(client::load(&root1, &t, &dir, &LoadOpts { limits: Some(lim), enforce: None }, wd));
            let nreq = t.log().len() as u64;
            let cap_hit = t.inner.lock().unwrap().cap_hit;
            if nreq > bound || cap_hit {
                out.viol(
                    format!("requests-unbounded:graph={graph}"),
                    format!("{nreq} requests (harness cap {cap} hit: {cap_hit}) for a repository publishing {p} delegations; bound {bound}"),
                );
            } else {
                match &res {
                    Err(client::LoadErr::Watchdog) => out.inconc("watchdog"),
                    Err(e) if legit => out.viol(
                        format!("legit-graph-refused:graph={graph}"),
                        format!("acyclic delegation graph refused: {}", e.text()),
                    ),
                    _ => {}
                }
            }
            out.h(format!("graph={graph}"));
            out.fingerprint = Some(format!("graph|{graph}|{}", c.consistent));
            out.nontrivial = !matches!(*graph, "tree" | "deep-chain");
            out.desc = Some(obj! {"kind" => "delegation graph", "graph" => *graph, "delegations_published" => p, "request_bound" => bound,
                "requests_made" => nreq, "observed" => obs_text(&res),
                "requests" => J::A(t.log_paths().into_iter().take(30).map(J::S).collect())});
        }
    }
    w.cleanup(&dir);
    out
}

fn obs_text(res: &Result<tough::Repository, client::LoadErr>) -> String {
    match res {
        Ok(r) => format!("ok (trusted root {})", r.root().signed.version),
        Err(e) => format!("{}: {}", e.class(), e.text()),
    }
}

#[allow(clippy::too_many_arguments)]
fn judge_sized(
    out: &mut CaseOut,
    role: &str,
    kind: &str,
    must_accept: bool,
    must_refuse: bool,
    res: &Result<tough::Repository, client::LoadErr>,
    pulled: u64,
    bound: u64,
    is_root2: bool,
) {
    if pulled > bound.saturating_add(CHUNK) {
        out.viol(
            format!("over-bound:file={role}:{kind}:pulled"),
            format!("{pulled} bytes pulled, bound {bound} + chunk {CHUNK}"),
        );
    }
    match res {
        Err(client::LoadErr::Watchdog) => out.inconc("watchdog"),
        Ok(r) => {
            let accepted = !is_root2 || r.root().signed.version.get() == 2;
            if must_refuse && accepted {
                out.viol(
                    format!("over-bound:file={role}:{kind}:accepted"),
                    format!("file larger than its bound {bound} was accepted"),
                );
            }
            if must_accept && !accepted {
                out.viol(format!("size-refused:file={role}:{kind}"), "root v2 within its bound was not followed".to_string());
            }
        }
        Err(e) => {
            if must_accept {
                let txt = e.text();
                if txt.contains("Maximum size") {
                    out.viol(
                        format!("size-refused:file={role}:{kind}"),
                        format!("file within its own bound {bound} refused: {txt}"),
                    );
                } else {
                    out.broken = Some(format!("legit repository failed for an unrelated reason: {txt}"));
                }
            }
        }
    }
}

pub fn run(cfg: &Cfg) -> i32 {
    let start = Instant::now();
    let _ = crate::keys::pool();
    let cases = gen_cases(cfg);
    let budget = cfg.tier.pick(Duration::from_secs(300), Duration::from_secs(1500));
    let ev = par_run(cfg, cases.len() as u64, budget, |w, i| cases.get(i as usize).map(|c| run_case(w, c)));
    let mut required: Vec<String> = Vec::new();
    for r in ROLES {
        for l in ["Zero", "SizeMinus1", "Size", "SizePlus1", "Default", "Huge"] {
            required.push(format!("limit:{}:{l}", rname(r)));
        }
        required.push(format!("stream:{}:endless", rname(r)));
        required.push(format!("stream:{}:oversized", rname(r)));
    }
    for r in ["snapshot", "targets", "delegated"] {
        for k in ["file-larger-than-pinned", "exact", "file-smaller-than-pinned"] {
            required.push(format!("pinned:{r}:{k}"));
        }
    }
    for g in ["tree", "diamond", "self", "mutual", "three-cycle", "deep-chain"] {
        required.push(format!("graph={g}"));
    }
    for k in ["below", "equal", "above"] {
        required.push(format!("root-chain:{k}-limit"));
    }
    for k in ["none", "same-version-again", "older-version"] {
        required.push(format!("root-chain:tail={k}"));
    }
    required.push("legit:delegated-larger-than-targets-json".into());
    finish(
        cfg,
        ev,
        Finish {
            level: "fault_enumeration",
            rule: "update cycles of the real client against an in-memory transport that counts requests and bytes pulled per URL: (a) configured per-role limit in {0, size-1, size, size+1, default, huge} for root/timestamp/snapshot/targets/delegated; (b) parent-pinned length = size-40..size+1000 for snapshot/targets/delegated, with the delegated role smaller and LARGER than targets.json and targets.json's own length pinned or not; (c) one request answered by an endless or 50 kB-oversized stream in 1/64/4096-byte chunks, pinned or not; (d) chains of max_root_updates-1/=/+1/+50 valid newer roots, followed by nothing, by the last root's bytes again under the next file name, or by an older root's bytes; (e) delegation graphs tree/diamond/deep chain/self/mutual/3-cycle with the decision taken on the request counter (bound = max_root_updates + 3 + published delegations; the transport fails everything after 10*bound+50 requests so that the run terminates). Every listed combination is run twice (both consistent-snapshot settings alternate), plus seeded random picks. Fingerprint = all parameters.",
            assumptions: vec![
                "bytes pulled may exceed the bound by at most one transport chunk (the client cannot un-pull a chunk)".into(),
                "when exactly max_root_updates newer roots exist the cycle may end in success or in an error; only the number of requests is judged".into(),
            ],
            required_hist: required,
            min_evaluations: 500,
        },
        start.elapsed(),
    )
}
