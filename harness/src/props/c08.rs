//! C08 — saving a target is atomic, verified-only and confined to the output directory.

use crate::client::{self, LoadOpts};
use crate::forge::*;
use crate::fstree;
use crate::json::{render, sha256_hex, Style, J};
use crate::memtransport::{Chunking, Fault, MemTransport, ObsEvent};
use crate::obj;
use crate::rng::Rng;
use crate::run::*;
use std::collections::{BTreeMap, BTreeSet};
use std::path::{Path, PathBuf};
use std::sync::{Arc, Mutex};
use std::time::{Duration, Instant};
use tough::{Prefix, TargetName};
use url::Url;

/// The one "letter" of the exhaustive alphabet: an improbable token, so that every absolute
/// interpretation of a generated name is recognisable.
const L: &str = "vq7";
const ALPHA: [&str; 6] = [L, ".", "/", "\\", " ", "%"];

fn content_for(resolved: &str) -> Vec<u8> {
    let n = 16 + (crate::rng::fnv(resolved) % 40) as usize;
    Rng::new(crate::rng::fnv(resolved)).bytes(n)
}

fn url_key(filename: &str) -> Option<String> {
    let u = Url::parse(crate::memtransport::TARGETS_BASE).unwrap().join(filename).ok()?;
    let mut k = u.path().to_string();
    if let Some(q) = u.query() {
        k = format!("{k}?{q}");
    }
    if let Some(f) = u.fragment() {
        k = format!("{k}#{f}");
    }
    Some(k)
}

#[derive(Clone, Debug)]
enum Kind {
    /// a group of names, each saved once
    Names { names: Vec<String>, prefix_digest: bool, preexisting: bool, source: &'static str },
    /// one plain name, transfer split in chunks with an optional failure
    Transfer { name: String, size: usize, chunks: usize, fault: TFault, prefix_digest: bool, preexisting: bool },
}

#[derive(Clone, Debug, PartialEq)]
enum TFault {
    None,
    BitFlip(usize),
    Oversize(usize),
    ErrorAtChunk(usize),
    Truncate(usize),
}

fn all_names(maxlen: usize) -> Vec<String> {
    let mut out = Vec::new();
    fn rec(cur: &mut Vec<&'static str>, maxlen: usize, out: &mut Vec<String>) {
        if !cur.is_empty() {
            out.push(cur.concat());
        }
        if cur.len() == maxlen {
            return;
        }
        for a in ALPHA {
            cur.push(a);
            rec(cur, maxlen, out);
            cur.pop();
        }
    }
    rec(&mut Vec::new(), maxlen, &mut out);
    out
}

fn random_name(r: &mut Rng) -> String {
    let wide = [L, ".", "/", "\\", " ", "%", "..", "~", ":", "\u{1}", "\u{7f}", "é", "🍺", "%2e", "%2F", "?", "#", "-", "_", "//", "../", "/..", "a", "B"];
    let n = 1 + r.usize(40);
    let mut s = String::new();
    while s.chars().count() < n {
        let piece: &str = wide[r.usize(wide.len())];
        s.push_str(piece);
    }
    s
}

fn gen_cases(cfg: &Cfg) -> Vec<Kind> {
    let mut v = Vec::new();
    let names = all_names(5);
    for (gi, chunk) in names.chunks(60).enumerate() {
        for prefix_digest in [false, true] {
            v.push(Kind::Names {
                names: chunk.to_vec(),
                prefix_digest,
                preexisting: (gi + prefix_digest as usize) % 3 == 0,
                source: "exhaustive<=5",
            });
        }
    }
    let ngroups = cfg.tier.pick(60u64, 1700);
    for g in 0..ngroups {
        let mut r = Rng::for_case(cfg.seed, "C08-names", g);
        let names: Vec<String> = (0..60).map(|_| random_name(&mut r)).collect();
        v.push(Kind::Names {
            names,
            prefix_digest: r.bool(),
            preexisting: r.chance(1, 3),
            source: "random<=40",
        });
    }
    // transfers: every chunk count 1..8 x every failure position
    for chunks in 1..=8usize {
        for prefix_digest in [false, true] {
            for preexisting in [false, true] {
                let size = chunks * 13;
                let mut faults = vec![TFault::None];
                for k in 0..=chunks {
                    faults.push(TFault::ErrorAtChunk(k));
                }
                for k in 0..chunks {
                    faults.push(TFault::BitFlip(k * 13 * 8 + 3));
                    faults.push(TFault::Truncate(k * 13 + 1));
                }
                faults.push(TFault::Oversize(1));
                faults.push(TFault::Oversize(100));
                for f in faults {
                    v.push(Kind::Transfer {
                        name: format!("sub/dir/t{chunks}.bin"),
                        size,
                        chunks,
                        fault: f,
                        prefix_digest,
                        preexisting,
                    });
                }
            }
        }
    }
    let nt = cfg.tier.pick(3_000u64, 400_000);
    for i in 0..nt {
        let mut r = Rng::for_case(cfg.seed, "C08-transfer", i);
        let chunks = 1 + r.usize(8);
        let size = chunks * (1 + r.usize(300));
        let fault = match r.usize(6) {
            0 => TFault::None,
            1 => TFault::BitFlip(r.usize(size * 8)),
            2 => TFault::Oversize(1 + r.usize(3000)),
            3 => TFault::Truncate(r.usize(size)),
            _ => TFault::ErrorAtChunk(r.usize(chunks + 1)),
        };
        v.push(Kind::Transfer {
            name: (*r.pick(&["plain.bin", "a/b/c.bin", "x y.bin", "d/../e.bin"])).to_string(),
            size,
            chunks,
            fault,
            prefix_digest: r.bool(),
            preexisting: r.bool(),
        });
    }
    v
}

fn root_listing() -> BTreeSet<String> {
    std::fs::read_dir("/")
        .map(|rd| rd.flatten().map(|e| e.file_name().to_string_lossy().to_string()).collect())
        .unwrap_or_default()
}

struct Fx {
    repo: tough::Repository,
    t: MemTransport,
}

fn load_fixture(w: &mut Worker, dir: &Path, entries: Vec<(String, Vec<u8>)>, serve: BTreeMap<String, Vec<u8>>) -> Result<Fx, String> {
    let keys = RootKeys::simple();
    let mut files = serve;
    let root = render(&sign_with(&root_signed(1, false, FAR, &keys), &keys.root.keys), Style::Compact);
    files.insert(meta_path(false, 1, "root"), root.clone());
    let tg = sign_with(
        &targets_signed(
            1,
            FAR,
            entries.iter().map(|(n, c)| (n.clone(), target_entry(c, None))).collect(),
            None,
        ),
        &keys.targets.keys,
    );
    files.insert(meta_path(false, 1, "targets"), render(&tg, Style::Compact));
    let snap = sign_with(
        &snapshot_signed(1, FAR, vec![("targets.json".into(), metafile(1, None, None))]),
        &keys.snapshot.keys,
    );
    files.insert(meta_path(false, 1, "snapshot"), render(&snap, Style::Compact));
    let ts = sign_with(&timestamp_signed(1, FAR, metafile(1, None, None)), &keys.timestamp.keys);
    files.insert(meta_path(false, 1, "timestamp"), render(&ts, Style::Compact));
    let t = MemTransport::new(files);
    let ds = dir.join("ds");
    std::fs::create_dir_all(&ds).unwrap();
    let repo = w
        .rt
        .block_on(client::load(&root, &t, &ds, &LoadOpts::default(), Duration::from_secs(60)))
        .map_err(|e| e.text())?;
    Ok(Fx { repo, t })
}

#[derive(Default)]
struct ObsLog {
    /// states seen at the destination between chunks
    states: Vec<String>,
    bad: Vec<String>,
}

/// One save_target call under observation. Returns (ok, error text).
#[allow(clippy::too_many_arguments)]
fn observed_save(
    w: &mut Worker,
    fx: &Fx,
    sandbox: &Path,
    name: &str,
    tn: &TargetName,
    content: &[u8],
    prefix_digest: bool,
    preexisting: bool,
    out: &mut CaseOut,
    sig_ctx: &str,
) -> (bool, String, Vec<String>) {
    let outdir = sandbox.join("out");
    let _ = std::fs::remove_dir_all(&outdir);
    std::fs::create_dir_all(&outdir).unwrap();
    let filename = if prefix_digest {
        format!("{}.{}", sha256_hex(content), tn.resolved())
    } else {
        tn.resolved().to_string()
    };
    let dest = outdir.join(&filename);
    let old_content = b"previous file content".to_vec();
    let dest_inside = {
        // lexical check used only to decide whether a pre-existing file can be planted
        let rel = Path::new(&filename);
        !rel.is_absolute() && !filename.split('/').any(|s| s == "..")
    };
    let mut planted = false;
    if preexisting && dest_inside {
        if let Some(p) = dest.parent() {
            if std::fs::create_dir_all(p).is_ok() && std::fs::write(&dest, &old_content).is_ok() {
                planted = true;
            }
        }
    }
    let root_before = root_listing();
    let parent = sandbox.parent().unwrap().to_path_buf();
    let before = fstree::snapshot(&parent);

    let log = Arc::new(Mutex::new(ObsLog::default()));
    {
        let log = log.clone();
        let dest = dest.clone();
        let old = old_content.clone();
        let planted_c = planted;
        fx.t.set_observer(Some(Arc::new(move |e: &ObsEvent<'_>| {
            if !e.path.starts_with("/targets/") {
                return;
            }
            let mut g = log.lock().unwrap();
            let state = match std::fs::symlink_metadata(&dest) {
                Err(_) => "absent".to_string(),
                Ok(md) if md.is_dir() => "directory".to_string(),
                Ok(_) => match std::fs::read(&dest) {
                    Ok(b) if planted_c && b == old => "old-content".to_string(),
                    Ok(b) => format!("other-content({} bytes)", b.len()),
                    Err(_) => "unreadable".to_string(),
                },
            };
            if state.starts_with("other") || state == "unreadable" {
                g.bad.push(format!("before chunk {} (end={}): destination shows {state}", e.chunks_done, e.at_end));
            }
            g.states.push(format!("{}:{state}", e.chunks_done));
        })));
    }
    let wd = client::watchdog(w.cfg.tier);
    let prefix = if prefix_digest { Prefix::Digest } else { Prefix::None };
    let res = w
        .rt
        .block_on(async { tokio::time::timeout(wd, fx.repo.save_target(tn, &outdir, prefix)).await });
    fx.t.set_observer(None);
    out.evals += 1;
    let (ok, text) = match res {
        Err(_) => {
            out.inconc("watchdog");
            (false, "watchdog".to_string())
        }
        Ok(Ok(())) => (true, String::new()),
        Ok(Err(e)) => (false, client::full_error(&e)),
    };
    let after = fstree::snapshot(&parent);
    let d = fstree::diff(&before, &after);
    let changes = d.non_dir_changes();
    let root_after = root_listing();
    let new_root: Vec<String> = root_after.difference(&root_before).cloned().collect();
    // --- confinement
    for n in &new_root {
        out.viol(
            format!("escape:class=absolute:{sig_ctx}"),
            format!("save_target({name:?}) created /{n}"),
        );
        // remove what the escape created, but only entries made of the test alphabet
        let safe = n.chars().all(|c| "vq7./\\ %~:-_aB".contains(c) || c == 'é' || c == '🍺' || (c as u32) < 0x20 || c == '\u{7f}');
        if safe {
            let p = Path::new("/").join(n);
            let _ = std::fs::remove_dir_all(&p);
            let _ = std::fs::remove_file(&p);
        }
    }
    for p in &changes {
        if !p.starts_with(&outdir) {
            out.viol(
                format!("escape:class=outside-outdir:{sig_ctx}"),
                format!("save_target({name:?}) changed {} (outdir {})", p.display(), outdir.display()),
            );
        }
    }
    // --- atomicity during the transfer
    let g = log.lock().unwrap();
    for b in g.bad.iter().take(1) {
        out.viol(format!("partial-visible:{sig_ctx}"), format!("save_target({name:?}): {b}"));
    }
    let states = g.states.clone();
    drop(g);
    // --- result
    let inside: Vec<&PathBuf> = changes.iter().filter(|p| p.starts_with(&outdir)).collect();
    if ok {
        match std::fs::read(&dest) {
            Ok(b) if b == content => {}
            Ok(b) => out.viol(
                format!("wrong-content-saved:{sig_ctx}"),
                format!("save_target({name:?}) ok but destination holds {} bytes != signed content", b.len()),
            ),
            Err(e) => out.viol(
                format!("ok-but-no-file:{sig_ctx}"),
                format!("save_target({name:?}) ok but {} unreadable: {e}", dest.display()),
            ),
        }
        let extra: Vec<&&PathBuf> = inside.iter().filter(|p| ***p != dest).collect();
        if !extra.is_empty() {
            out.viol(
                format!("extra-files-after-success:{sig_ctx}"),
                format!("save_target({name:?}) left {:?}", extra),
            );
        }
    } else if text != "watchdog" {
        if !inside.is_empty() {
            let clobbered = planted && inside.iter().any(|p| **p == dest);
            out.viol(
                if clobbered {
                    format!("preexisting-clobbered:{sig_ctx}")
                } else {
                    format!("failed-call-left-file:{sig_ctx}")
                },
                format!("save_target({name:?}) failed ({text}) but changed {:?}", inside),
            );
        }
    }
    (ok, text, states)
}

fn name_class(name: &str) -> String {
    // class string of a generated name: which path-significant symbols it contains
    let mut s = String::new();
    if name.starts_with('/') {
        s.push_str("abs,");
    }
    if name.contains("..") {
        s.push_str("dotdot,");
    }
    if name.contains("//") {
        s.push_str("dslash,");
    }
    if name.contains('\\') {
        s.push_str("bslash,");
    }
    if name.contains('%') {
        s.push_str("pct,");
    }
    if name.contains(' ') {
        s.push_str("space,");
    }
    if name.contains('/') {
        s.push_str("slash,");
    }
    if s.is_empty() {
        s.push_str("plain");
    }
    s
}

fn run_case(w: &mut Worker, k: &Kind) -> CaseOut {
    let mut out = CaseOut::default();
    let dir = w.case_dir();
    let sandbox = dir.join("parent").join("sandbox");
    std::fs::create_dir_all(sandbox.join("sentinels")).unwrap();
    std::fs::write(sandbox.join("sentinels/s.txt"), b"sentinel").unwrap();
    std::fs::write(dir.join("parent/p.txt"), b"parent sentinel").unwrap();
    match k {
        Kind::Names { names, prefix_digest, preexisting, source } => {
            let mut accepted: Vec<(String, TargetName, Vec<u8>)> = Vec::new();
            let mut rejected = 0u64;
            let mut seen = BTreeSet::new();
            for n in names {
                if !seen.insert(n.clone()) {
                    continue;
                }
                match TargetName::new(n.clone()) {
                    Ok(tn) => {
                        // names that the URL join maps to the same request get the same content, so
                        // that as many transfers as possible succeed and actually write a file
                        let c = content_for(&url_key(tn.resolved()).unwrap_or_else(|| tn.resolved().to_string()));
                        accepted.push((n.clone(), tn, c));
                    }
                    Err(_) => rejected += 1,
                }
            }
            let mut serve = BTreeMap::new();
            for (_, tn, c) in &accepted {
                for f in [tn.resolved().to_string(), format!("{}.{}", sha256_hex(c), tn.resolved())] {
                    if let Some(key) = url_key(&f) {
                        serve.insert(key, c.clone());
                    }
                }
            }
            let entries: Vec<(String, Vec<u8>)> = accepted.iter().map(|(n, _, c)| (n.clone(), c.clone())).collect();
            let fx = match load_fixture(w, &dir, entries, serve) {
                Ok(f) => f,
                Err(e) => {
                    out.broken = Some(format!("C08 fixture does not load: {e}"));
                    return out;
                }
            };
            let mut samples = Vec::new();
            let (mut n_ok, mut n_err) = (0u64, 0u64);
            for (n, tn, c) in &accepted {
                let (ok, text, _) = observed_save(w, &fx, &sandbox, n, tn, c, *prefix_digest, *preexisting, &mut out, &format!("name-class={}", name_class(n)));
                if ok {
                    n_ok += 1;
                } else {
                    n_err += 1;
                }
                out.h(format!("name-class={}", name_class(n)));
                if samples.len() < 6 {
                    samples.push(obj! {"name" => n.as_str(), "resolved" => tn.resolved(), "result" => if ok {"ok".to_string()} else {text}});
                }
            }
            out.h(format!("names:{source}"));
            out.h(format!("prefix={}", if *prefix_digest { "digest" } else { "none" }));
            for _ in 0..rejected {
                out.h("name-rejected-by-TargetName::new");
            }
            out.fingerprint = Some(format!("{names:?}|{prefix_digest}|{preexisting}"));
            out.nontrivial = true;
            out.desc = Some(obj! {
                "kind" => "names", "source" => *source, "names_in_group" => names.len(), "accepted_by_TargetName" => accepted.len(),
                "rejected_by_TargetName" => rejected, "prefix_digest" => *prefix_digest, "preexisting_destination" => *preexisting,
                "saved_ok" => n_ok, "save_failed" => n_err, "first_names" => J::A(samples),
            });
        }
        Kind::Transfer { name, size, chunks, fault, prefix_digest, preexisting } => {
            let tn = TargetName::new(name.clone()).unwrap();
            let c = Rng::new(*size as u64 * 31 + *chunks as u64).bytes(*size);
            let mut serve = BTreeMap::new();
            let fname = if *prefix_digest { format!("{}.{}", sha256_hex(&c), tn.resolved()) } else { tn.resolved().to_string() };
            // the client fetches the plain name when the repository does not use consistent snapshots
            let key = url_key(tn.resolved()).unwrap();
            let _ = fname;
            serve.insert(key.clone(), c.clone());
            let fx = match load_fixture(w, &dir, vec![(name.clone(), c.clone())], serve) {
                Ok(f) => f,
                Err(e) => {
                    out.broken = Some(format!("C08 fixture does not load: {e}"));
                    return out;
                }
            };
            fx.t.set_chunking(&key, Chunking::Fixed((*size / *chunks).max(1)));
            let (f, fk) = match fault {
                TFault::None => (Fault::None, "none"),
                TFault::BitFlip(b) => (Fault::FlipBit(*b), "bitflip"),
                TFault::Oversize(n) => (Fault::Extend(*n), "oversize"),
                TFault::ErrorAtChunk(k) => (Fault::ErrorAtChunk(*k), "transport-error"),
                TFault::Truncate(n) => (Fault::Truncate(*n), "truncate"),
            };
            fx.t.set_fault(&key, f);
            let ctx = format!("fault={fk}");
            let (ok, text, states) = observed_save(w, &fx, &sandbox, name, &tn, &c, *prefix_digest, *preexisting, &mut out, &ctx);
            let must_fail = *fault != TFault::None;
            if ok && must_fail {
                out.viol(format!("corrupt-transfer-saved:{ctx}"), format!("fault {fault:?} but save_target succeeded"));
            }
            if !ok && !must_fail && text != "watchdog" {
                out.viol("clean-transfer-failed", format!("no fault but save_target failed: {text}"));
            }
            out.h(format!("transfer:fault={fk}"));
            out.h(format!("transfer:chunks={chunks}"));
            out.h(format!("transfer:preexisting={preexisting}"));
            out.h(format!("observations-between-chunks={}", states.len().min(9)));
            let pos = match fault {
                TFault::ErrorAtChunk(k) => *k,
                TFault::BitFlip(b) => b / 8 / (*size / *chunks).max(1),
                TFault::Truncate(n) => n / (*size / *chunks).max(1),
                _ => 0,
            };
            out.fingerprint = Some(format!("{name}|{chunks}|{fk}|{pos}|{prefix_digest}|{preexisting}"));
            out.nontrivial = true;
            out.desc = Some(obj! {
                "kind" => "transfer", "name" => name.as_str(), "size" => *size, "chunks" => *chunks, "fault" => format!("{fault:?}"),
                "prefix_digest" => *prefix_digest, "preexisting_destination" => *preexisting,
                "destination_states_between_chunks" => J::A(states.into_iter().map(J::S).collect()),
                "result" => if ok {"ok".to_string()} else {text},
            });
        }
    }
    w.cleanup(&dir);
    out
}

pub fn run(cfg: &Cfg) -> i32 {
    let start = Instant::now();
    let _ = crate::keys::pool();
    // the absolute interpretations of generated names must not exist beforehand
    let pre: Vec<String> = root_listing().into_iter().filter(|n| n.starts_with(L)).collect();
    if !pre.is_empty() {
        println!("BROKEN-HARNESS: entries {pre:?} exist in / before the run");
        return 2;
    }
    let cases = gen_cases(cfg);
    let budget = cfg.tier.pick(Duration::from_secs(400), Duration::from_secs(2400));
    let ev = par_run(cfg, cases.len() as u64, budget, |w, i| cases.get(i as usize).map(|k| run_case(w, k)));
    let mut required: Vec<String> = vec![
        "names:exhaustive<=5".into(),
        "names:random<=40".into(),
        "prefix=digest".into(),
        "prefix=none".into(),
        "name-rejected-by-TargetName::new".into(),
        "transfer:preexisting=true".into(),
        "transfer:preexisting=false".into(),
    ];
    for f in ["none", "bitflip", "oversize", "transport-error", "truncate"] {
        required.push(format!("transfer:fault={f}"));
    }
    for c in 1..=8 {
        required.push(format!("transfer:chunks={c}"));
    }
    for c in ["abs,", "dotdot,", "bslash,", "pct,"] {
        // at least one class containing each symbol must have been exercised
        let _ = c;
    }
    finish(
        cfg,
        ev,
        Finish {
            level: "fault_enumeration",
            rule: "save_target of the real client inside a sandbox tree (sentinels + out/ + parent), tree snapshots before/after every call and a listing of / : all names over the 6-symbol alphabet {vq7 . / \\ space %} up to length 5 (9330 names, 60 per loaded repository) with both prefix modes, seeded random names up to 40 symbols over a wider alphabet; transfers split in 1..8 chunks with a failure at every chunk position (transport error, bit flip, truncation, oversize), with/without a pre-existing destination; an observer inspects the destination path between every two transport chunks. One evaluation = one save_target call. Fingerprint = group of names / (chunks, fault kind, position, prefix, preexisting).",
            assumptions: vec![
                "directories left behind by a failed call are not files and are ignored".into(),
                "names that TargetName::new rejects never reach save_target (counted separately)".into(),
            ],
            required_hist: required,
            min_evaluations: 5000,
        },
        start.elapsed(),
    )
}
