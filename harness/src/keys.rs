//! Key pool for the harness: generated once with aws-lc-rs, cached under /verif/.cache so that
//! replays see the same keys.

use crate::json::{refcanon, sha256, J};
use aws_lc_rs::encoding::AsDer;
use aws_lc_rs::rand::SystemRandom;
use aws_lc_rs::signature::{
    EcdsaKeyPair, Ed25519KeyPair, KeyPair, RsaKeyPair, ECDSA_P256_SHA256_ASN1_SIGNING,
    RSA_PSS_SHA256,
};
use std::sync::OnceLock;
use tough::key_source::KeySource;
use tough::sign::Sign;

#[derive(Clone, Copy, Debug, PartialEq, Eq, Hash)]
pub enum Alg {
    Ed25519,
    Ecdsa,
    Rsa,
}

impl Alg {
    pub fn short(self) -> &'static str {
        match self {
            Alg::Ed25519 => "ed25519",
            Alg::Ecdsa => "ecdsa",
            Alg::Rsa => "rsa",
        }
    }
}

/// How the public key is spelled in metadata.
#[derive(Clone, Copy, Debug, PartialEq, Eq, Hash)]
pub enum Enc {
    /// what tough itself emits (ed25519 hex, ecdsa PEM with keytype "ecdsa", rsa PEM)
    Default,
    /// ecdsa only: public key hex-encoded (go-tuf style)
    EcdsaHex,
    /// ecdsa only: keytype "ecdsa-sha2-nistp256"
    EcdsaOldType,
}

enum Kp {
    Ed(Ed25519KeyPair),
    Ec(EcdsaKeyPair),
    Rsa(RsaKeyPair),
}

pub struct TestKey {
    pub idx: usize,
    pub alg: Alg,
    /// PKCS#8 DER
    pub pkcs8: Vec<u8>,
    kp: Kp,
}

impl std::fmt::Debug for TestKey {
    fn fmt(&self, f: &mut std::fmt::Formatter<'_>) -> std::fmt::Result {
        write!(f, "K{}({})", self.idx, self.alg.short())
    }
}

impl TestKey {
    fn from_pkcs8(idx: usize, alg: Alg, pkcs8: Vec<u8>) -> TestKey {
        let kp = match alg {
            Alg::Ed25519 => Kp::Ed(Ed25519KeyPair::from_pkcs8(&pkcs8).expect("ed pkcs8")),
            Alg::Ecdsa => Kp::Ec(
                EcdsaKeyPair::from_pkcs8(&ECDSA_P256_SHA256_ASN1_SIGNING, &pkcs8).expect("ec pkcs8"),
            ),
            Alg::Rsa => Kp::Rsa(RsaKeyPair::from_pkcs8(&pkcs8).expect("rsa pkcs8")),
        };
        TestKey {
            idx,
            alg,
            pkcs8,
            kp,
        }
    }

    fn generate(idx: usize, alg: Alg) -> TestKey {
        let rng = SystemRandom::new();
        let pkcs8 = match alg {
            Alg::Ed25519 => Ed25519KeyPair::generate_pkcs8(&rng).unwrap().as_ref().to_vec(),
            Alg::Ecdsa => EcdsaKeyPair::generate_pkcs8(&ECDSA_P256_SHA256_ASN1_SIGNING, &rng)
                .unwrap()
                .as_ref()
                .to_vec(),
            Alg::Rsa => {
                let kp = RsaKeyPair::generate(aws_lc_rs::rsa::KeySize::Rsa2048).unwrap();
                let der: aws_lc_rs::encoding::Pkcs8V1Der = kp.as_der().unwrap();
                der.as_ref().to_vec()
            }
        };
        TestKey::from_pkcs8(idx, alg, pkcs8)
    }

    /// A fresh signature over msg (randomised for rsa-pss and ecdsa, deterministic for ed25519).
    pub fn sign(&self, msg: &[u8]) -> Vec<u8> {
        let rng = SystemRandom::new();
        match &self.kp {
            Kp::Ed(k) => k.sign(msg).as_ref().to_vec(),
            Kp::Ec(k) => k.sign(&rng, msg).unwrap().as_ref().to_vec(),
            Kp::Rsa(k) => {
                let mut sig = vec![0; k.public_modulus_len()];
                k.sign(&RSA_PSS_SHA256, &rng, msg, &mut sig).unwrap();
                sig
            }
        }
    }

    pub fn public_raw(&self) -> Vec<u8> {
        match &self.kp {
            Kp::Ed(k) => k.public_key().as_ref().to_vec(),
            Kp::Ec(k) => k.public_key().as_ref().to_vec(),
            Kp::Rsa(k) => k.public_key().as_ref().to_vec(),
        }
    }

    /// Independent verification with aws-lc (not through tough).
    pub fn verify(&self, msg: &[u8], sig: &[u8]) -> bool {
        use aws_lc_rs::signature::{UnparsedPublicKey, ECDSA_P256_SHA256_ASN1, ED25519, RSA_PSS_2048_8192_SHA256};
        let raw = self.public_raw();
        match self.alg {
            Alg::Ed25519 => UnparsedPublicKey::new(&ED25519, &raw).verify(msg, sig).is_ok(),
            Alg::Ecdsa => UnparsedPublicKey::new(&ECDSA_P256_SHA256_ASN1, &raw)
                .verify(msg, sig)
                .is_ok(),
            Alg::Rsa => UnparsedPublicKey::new(&RSA_PSS_2048_8192_SHA256, &raw)
                .verify(msg, sig)
                .is_ok(),
        }
    }

    /// The TUF key object as JSON.
    pub fn key_json(&self, enc: Enc) -> J {
        let k = match &self.kp {
            Kp::Ed(k) => Sign::tuf_key(k),
            Kp::Ec(k) => Sign::tuf_key(k),
            Kp::Rsa(k) => Sign::tuf_key(k),
        };
        let mut j = J::from_serde(&serde_json::to_value(&k).unwrap());
        match (self.alg, enc) {
            (Alg::Ecdsa, Enc::EcdsaHex) => {
                j.at_mut("keyval").set("public", hex::encode(self.public_raw()));
            }
            (Alg::Ecdsa, Enc::EcdsaOldType) => {
                j.set("keytype", "ecdsa-sha2-nistp256");
            }
            _ => {}
        }
        j
    }

    /// key id computed by the harness: SHA-256 of the reference canonical form of the key object.
    pub fn keyid(&self, enc: Enc) -> String {
        keyid_of(&self.key_json(enc))
    }

    pub fn id(&self) -> String {
        self.keyid(Enc::Default)
    }

    /// Private key file content as `tough::sign::parse_keypair` accepts it.
    pub fn private_file(&self) -> Vec<u8> {
        match self.alg {
            Alg::Ed25519 | Alg::Ecdsa => self.pkcs8.clone(),
            Alg::Rsa => pem::encode(&pem::Pem::new("PRIVATE KEY", self.pkcs8.clone())).into_bytes(),
        }
    }

    pub fn source(&self) -> Box<dyn KeySource> {
        Box::new(MemKeySource {
            data: self.private_file(),
        })
    }
}

static SIG_CACHE: OnceLock<std::sync::Mutex<std::collections::HashMap<(usize, Vec<u8>), Vec<u8>>>> = OnceLock::new();

/// A valid signature by pool key `k` over `msg`, memoised (RSA signing is the expensive part).
pub fn cached_sign(k: usize, msg: &[u8]) -> Vec<u8> {
    let c = SIG_CACHE.get_or_init(Default::default);
    let h = sha256(msg);
    if let Some(s) = c.lock().unwrap().get(&(k, h.clone())) {
        return s.clone();
    }
    let s = key(k).sign(msg);
    c.lock().unwrap().insert((k, h), s.clone());
    s
}

pub fn keyid_of(key_json: &J) -> String {
    hex::encode(sha256(&refcanon(key_json).expect("key canon")))
}

#[derive(Debug)]
pub struct MemKeySource {
    pub data: Vec<u8>,
}

#[async_trait::async_trait]
impl KeySource for MemKeySource {
    async fn as_sign(
        &self,
    ) -> Result<Box<dyn Sign>, Box<dyn std::error::Error + Send + Sync + 'static>> {
        Ok(Box::new(tough::sign::parse_keypair(&self.data)?))
    }
    async fn write(
        &self,
        _value: &str,
        _key_id_hex: &str,
    ) -> Result<(), Box<dyn std::error::Error + Send + Sync + 'static>> {
        Ok(())
    }
}

pub const N_ED: usize = 12;
pub const N_EC: usize = 4;
pub const N_RSA: usize = 4;

static POOL: OnceLock<Vec<TestKey>> = OnceLock::new();

/// Pool layout: indices 0..N_ED ed25519, then N_EC ecdsa, then N_RSA rsa.
pub fn pool() -> &'static [TestKey] {
    POOL.get_or_init(|| {
        let cache = std::path::Path::new("/verif/.cache/keys.json");
        if let Ok(b) = std::fs::read(cache) {
            if let Ok(J::A(items)) = J::parse(&b) {
                if items.len() == N_ED + N_EC + N_RSA {
                    let mut v = Vec::new();
                    for (i, it) in items.iter().enumerate() {
                        let alg = match it.at("alg").as_str().unwrap() {
                            "ed25519" => Alg::Ed25519,
                            "ecdsa" => Alg::Ecdsa,
                            _ => Alg::Rsa,
                        };
                        let der = hex::decode(it.at("pkcs8").as_str().unwrap()).unwrap();
                        v.push(TestKey::from_pkcs8(i, alg, der));
                    }
                    return v;
                }
            }
        }
        let mut v = Vec::new();
        for i in 0..(N_ED + N_EC + N_RSA) {
            let alg = if i < N_ED {
                Alg::Ed25519
            } else if i < N_ED + N_EC {
                Alg::Ecdsa
            } else {
                Alg::Rsa
            };
            v.push(TestKey::generate(i, alg));
        }
        let items: Vec<J> = v
            .iter()
            .map(|k| crate::obj! {"alg" => k.alg.short(), "pkcs8" => hex::encode(&k.pkcs8)})
            .collect();
        let _ = std::fs::create_dir_all("/verif/.cache");
        let _ = std::fs::write(cache, crate::json::render(&J::A(items), crate::json::Style::Compact));
        v
    })
}

pub fn key(i: usize) -> &'static TestKey {
    &pool()[i]
}

/// Index of the j-th key of an algorithm.
pub fn key_of(alg: Alg, j: usize) -> usize {
    match alg {
        Alg::Ed25519 => j % N_ED,
        Alg::Ecdsa => N_ED + (j % N_EC),
        Alg::Rsa => N_ED + N_EC + (j % N_RSA),
    }
}
