pub mod client;
pub mod forge;
pub mod fstree;
pub mod hist;
pub mod httpd;
pub mod json;
pub mod keys;
pub mod memcheck;
pub mod memtransport;
pub mod props;
pub mod rng;
pub mod run;
pub mod specgen;

use chrono::{DateTime, TimeZone, Utc};

/// Base instant of the virtual clock: every case starts at this time unless it moves the clock.
pub fn base_time() -> DateTime<Utc> {
    Utc.with_ymd_and_hms(2030, 1, 1, 0, 0, 0).unwrap()
}

pub fn fmt_time(t: DateTime<Utc>) -> String {
    t.format("%Y-%m-%dT%H:%M:%SZ").to_string()
}
