//! C11 workload small enough for Miri: the canonical formatter of /repo/olpc-cjson (pure Rust) is
//! driven with an insertion-ordered container and compared with the harness' reference
//! canonicaliser, while Miri watches for undefined behaviour, leaks and invalid UTF-8 construction.
#[path = "../../src/json.rs"]
#[allow(dead_code)]
mod json;
#[path = "../../src/rng.rs"]
#[allow(dead_code)]
mod rng;

use json::{normalise, parse_canon, refcanon, J};
use serde::ser::{SerializeMap, SerializeSeq};
use serde::Serialize;

struct Ordered<'a>(&'a J);
impl Serialize for Ordered<'_> {
    fn serialize<S: serde::Serializer>(&self, s: S) -> Result<S::Ok, S::Error> {
        match self.0 {
            J::Null => s.serialize_unit(),
            J::Bool(b) => s.serialize_bool(*b),
            J::U(u) => s.serialize_u64(*u),
            J::I(i) => s.serialize_i64(*i),
            J::F(f) => s.serialize_f64(*f),
            J::S(x) => s.serialize_str(x),
            J::A(a) => {
                let mut seq = s.serialize_seq(Some(a.len()))?;
                for v in a {
                    seq.serialize_element(&Ordered(v))?;
                }
                seq.end()
            }
            J::O(m) => {
                let mut map = s.serialize_map(Some(m.len()))?;
                for (k, v) in m {
                    map.serialize_entry(k, &Ordered(v))?;
                }
                map.end()
            }
        }
    }
}

fn sut(j: &J) -> Result<Vec<u8>, String> {
    let mut data = Vec::new();
    let mut ser = serde_json::Serializer::with_formatter(&mut data, olpc_cjson::CanonicalFormatter::new());
    Ordered(j).serialize(&mut ser).map_err(|e| e.to_string())?;
    Ok(data)
}

const SYMS: [&str; 8] = ["a", "b", " ", "!", "\"", "\\", "\u{e9}", "e\u{301}"];

fn main() {
    let budget: usize = std::env::args().nth(1).and_then(|s| s.parse().ok()).unwrap_or(1500);
    // shard: where in the key list the enumeration of pairs starts
    let start: usize = std::env::args().nth(2).and_then(|s| s.parse().ok()).unwrap_or(0);
    let mut keys: Vec<String> = SYMS.iter().map(|s| s.to_string()).collect();
    for a in SYMS {
        for b in SYMS {
            keys.push(format!("{a}{b}"));
        }
    }
    let n = std::cell::Cell::new(0usize);
    let bad = std::cell::Cell::new(0usize);
    let check = |j: &J| {
        n.set(n.get() + 1);
        match (refcanon(j), sut(j)) {
            (Ok(e), Ok(g)) => {
                if e != g {
                    bad.set(bad.get() + 1);
                    println!("MISMATCH {:?} vs reference {:?}", String::from_utf8_lossy(&g), String::from_utf8_lossy(&e));
                } else if parse_canon(&g).ok() != normalise(j).ok() {
                    bad.set(bad.get() + 1);
                    println!("NOT-INJECTIVE {:?}", String::from_utf8_lossy(&g));
                }
            }
            (Err(_), Err(_)) => {}
            (Err(_), Ok(g)) => {
                bad.set(bad.get() + 1);
                println!("FLOAT-EMITTED {:?}", String::from_utf8_lossy(&g));
            }
            (Ok(_), Err(e)) => {
                bad.set(bad.get() + 1);
                println!("REFUSED {e}");
            }
        }
    };
    // every single key and every ordered pair of keys (both insertion orders) until the budget is used
    'outer: for (i, a) in keys.iter().enumerate().skip(start % 72) {
        check(&J::O(vec![(a.clone(), J::U(1))]));
        for b in keys.iter().skip(i + 1) {
            if json::nfc_lite(a).ok() == json::nfc_lite(b).ok() {
                continue;
            }
            check(&J::O(vec![(a.clone(), J::U(1)), (b.clone(), J::S(b.clone()))]));
            check(&J::O(vec![(b.clone(), J::S(b.clone())), (a.clone(), J::U(1))]));
            if n.get() >= budget {
                break 'outer;
            }
        }
    }
    // nested values, integer extremes, control characters, floats
    let mut r = rng::Rng::new(7 + start as u64);
    for _ in 0..(budget / 10) {
        let s: String = (0..r.usize(6)).map(|_| char::from_u32(r.below(0x80) as u32).unwrap()).collect();
        let v = J::O(vec![
            (s.clone(), J::A(vec![J::U(u64::MAX), J::I(i64::MIN), J::Null, J::Bool(true), J::S(s.clone())])),
            ("nested".to_string(), J::O(vec![("o\u{308}".into(), J::S("A\u{30a}\u{1100}\u{1161}".into())), ("\u{1f37a}".into(), J::A(vec![]))])),
        ]);
        check(&v);
        check(&J::A(vec![v.clone(), J::F(1.5)]));
    }
    println!("MIRI-WORKLOAD-DONE serialisations={} disagreements={}", n.get(), bad.get());
    if bad.get() > 0 {
        std::process::exit(1);
    }
}
