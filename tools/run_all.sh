#!/bin/bash
# usage: tools/run_all.sh <quick|thorough> <seed> [ids...]   — runs the checks, prints one summary line per check
tier=${1:-quick}; seed=${2:-1}; shift 2
ids=${@:-C01 C02 C03 C04 C05 C06 C07 C08 C09 C10 C11 C12 C13 C14 C15 C16 C17 C18 C19 C20}
cd /verif
for p in $ids; do
  out=$(VERIF_SEED=$seed ./check $p --tier $tier 2>&1); rc=$?
  echo "$p rc=$rc $(echo "$out" | grep -E "^$p:" | tail -1)"
  echo "$out" | grep -E "^(VIOLATION|BROKEN|BUILD|  signature)" | cut -c1-300
done
