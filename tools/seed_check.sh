#!/bin/bash
# Apply one seeded change to /repo, run the named checks (quick tier), print what they report, undo.
# usage: tools/seed_check.sh <dir-with-patch.diff> <ID>...
# Never run while another check is running: the checks rebuild from /repo's working tree.
set -u
cd "$(dirname "$0")/.."
dir=$1; shift
if [ -n "$(git -C /repo status --porcelain --untracked-files=no)" ]; then echo "/repo working tree is not clean"; exit 2; fi
git -C /repo apply "$dir/patch.diff" || { echo APPLY-FAILED; exit 2; }
trap 'git -C /repo checkout -- .' EXIT
for id in "$@"; do
  out=$(./check "$id" --tier "${TIER:-quick}" --seed "${VERIF_SEED:-1}" 2>&1); rc=$?
  echo "$out" | grep -E "^$id:" | cut -c1-220
  echo "  rc=$rc violation_lines=$(echo "$out" | grep -c '^VIOLATION')"
  jq -r '.coverage.violation_signatures // {} | to_entries[] | "  sig \(.key) cases=\(.value)"' "evidence/$id.json" 2>/dev/null | head -${MAXSIG:-8}
done
