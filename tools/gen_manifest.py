#!/usr/bin/env python3
"""Regenerates /verif/MANIFEST.json from the table below (keeps the manifest valid at all times)."""
import json, subprocess

CLAIMED = {
 "C01": dict(cat="exploration", tech="runtime monitor on load()/verify_role outcomes; oracle = ground truth by construction over generated signature lists (exhaustive small scope + seeded random)",
    text="Forged signature lists (valid / duplicate-key / corrupted / other-content / other-role / unknown / listed-but-missing-key) at all 8 verification sites are pushed through the real RepositoryLoader::load and through direct Root/Delegations::verify_role calls; the oracle knows by construction how many distinct authorised keys validly signed. Exhaustive for lists up to length 2/3 (load level) and 4/5 (API level), sampled beyond; held on the executions listed in the evidence, nothing is proved.",
    note="Trusted: aws-lc-rs primitives; harness reference canonicaliser; bounds n,t<=4, list length<=5.", ref="§5 C01"),
 "C02": dict(cat="exploration", tech="runtime monitor on load() outcome, trusted root version and transport fetch log; oracle = reference chain walk over generator ground truth (set of acceptable outcomes)",
    text="Seeded random root chains (shipped 1..2, 0..4 hops, rotation kinds per hop for root and online roles, one optional broken hop of 9 kinds, top-level metadata signed by final or revoked epoch keys, non-self-verifying shipped roots) are served to the real client; an independent reference walk computes which final roots are acceptable; fetch-log rules check stop-at-first-missing. Held on the executions in the evidence.",
    note="Trusted: harness forge/refcanon; outcome sets where the statement leaves freedom (broken hop may fail or stop at last good root; skipping hop may be followed or refused).", ref="§5 C02"),
 "C03": dict(cat="exploration", tech="offline history checker over recorded update-cycle histories sharing one datastore (pairwise rollback rule with key-change exemption + forward-never-refused rule)",
    text="All 81^2 two-cycle histories (both consistent-snapshot settings), lowering templates, all 81^3 three-cycle histories (thorough) and seeded 2..4-cycle histories with root publications are run against the real client over one datastore directory; the recorded (result, versions, trusted root) history is judged offline. Known finding: rollback of timestamp/snapshot accepted when the shipped root predates an online-key rotation (trusted root not persisted).",
    note="Exemption read permissively; versions 1..3; <=4 cycles.", ref="§5 C03"),
 "C14": dict(cat="exploration", tech="runtime monitor over two-cycle histories with root publications in between; oracle by construction (rotation kind x version relation)",
    text="Cycle 1 stores timestamp/snapshot at V in {3,2^31,2^63}; newer roots rotate timestamp/snapshot/both/neither keys (disjoint, add, remove, replace) over 1..3 hops; cycle 2 restarts at low versions. Rotated => must load; unrotated => must be refused; unrotated targets keys keep protecting targets.",
    note="Rotate-and-rotate-back and threshold-only changes are outside C14's quantifier.", ref="§5 C14"),
}


PENDING_REASON = "monitor not built yet in this session (design in DESIGN.md §5); will be claimed once its check exists and is silent on the unchanged tree"

def main():
    props=[json.loads(l) for l in open('/verif/properties.jsonl')]
    hooks_commits=subprocess.run(['git','-C','/repo','log','--format=%h %s','--grep=verif-hooks'],capture_output=True,text=True).stdout.strip().splitlines()
    checks=[]; na=[]
    for p in props:
        i=p['id']
        if i in CLAIMED:
            c=CLAIMED[i]
            checks.append({
              "property_id": i,
              "quick_cmd": f"./check {i} --tier quick",
              "thorough_cmd": f"./check {i} --tier thorough",
              "evidence_file": f"/verif/evidence/{i}.json",
              "replay_cmd_template": f"./check {i} --replay {{path}}",
              "engine": "tough-verif",
              "level_claimed": {"category": c['cat'], "text": c['text'], "design_ref": c['ref']},
              "level_note": c['note'],
              "technique": c['tech'],
            })
        else:
            na.append({"property_id": i, "reason": PENDING_REASON})
    m={
     "version":1,
     "setup_cmd":"cd /verif/harness && CARGO_NET_OFFLINE=true CARGO_TARGET_DIR=/verif/.cache/target cargo build --offline --release --bin verif",
     "hooks":{
        "guard":"cargo feature `verif-hooks` on crate tough (off by default)",
        "enable":"harness/Cargo.toml depends on tough = { path = \"/repo/tough\", features = [\"http\", \"verif-hooks\"] }; ./check rebuilds from /repo's working tree on every invocation",
        "baseline_off_cmd":"cd /repo && cargo nextest run --workspace --no-fail-fast --tool-config-file pb:/w/lib/nextest.toml --profile pb --test-threads 8 --offline",
        "source_commits":[l.split()[0] for l in hooks_commits],
        "add_only": True,
     },
     "engines":[{"name":"tough-verif","path":"/verif/harness","serves_properties":sorted(CLAIMED),"kind_free_text":"Rust harness: generators, in-memory/HTTP transports, reference oracles, runtime monitors, evidence writer; driven by /verif/check"}],
     "checks":checks,
     "not_applicable":na,
     "notes":"Technique family: runtime monitoring. Every check runs the real code of /repo (rebuilt from the working tree) under generated/hostile/faulty workloads and judges recorded executions with an independent oracle. Exit 0 = held on everything explored (KNOWN-FINDING lines for findings listed in known_findings.txt), exit 1 + VIOLATION line = unlisted violation, exit 2 = broken harness/coverage floor missed (no verdict).",
    }
    json.dump(m,open('/verif/MANIFEST.json','w'),indent=1)
    print("claimed",len(checks),"pending",len(na))
main()
