#!/usr/bin/env python3
"""Regenerates /verif/MANIFEST.json from the table below (keeps the manifest valid at all times)."""
import json, subprocess

CLAIMED = {
 "C01": dict(cat="exploration", tech="runtime monitor on load()/verify_role outcomes; oracle = ground truth by construction over generated signature lists (exhaustive small scope + seeded random); thorough re-runs the quick case list under valgrind memcheck (hostile signatures/keys reaching the native crypto library)",
    text="Forged signature lists (valid / duplicate-key / corrupted / other-content / other-role / unknown / listed-but-missing-key) at all 8 verification sites are pushed through the real RepositoryLoader::load and through direct Root/Delegations::verify_role calls; the oracle knows by construction how many distinct authorised keys validly signed. Exhaustive for lists up to length 2/3 (load level) and 4/5 (API level), sampled beyond; held on the executions listed in the evidence, nothing is proved.",
    note="Trusted: aws-lc-rs primitives; harness reference canonicaliser; bounds n,t<=4, list length<=5.", ref="§5 C01"),
 "C02": dict(cat="exploration", tech="runtime monitor on load() outcome, trusted root version and transport fetch log; oracle = reference chain walk over generator ground truth (set of acceptable outcomes)",
    text="Seeded random root chains (shipped 1..2, 0..4 hops, rotation kinds per hop for root and online roles, one optional broken hop of 9 kinds, top-level metadata signed by final or revoked epoch keys, non-self-verifying shipped roots) are served to the real client; an independent reference walk computes which final roots are acceptable; fetch-log rules check stop-at-first-missing; under-signed hops are also padded with repeated signatures, and bad shipped roots are also served with valid newer roots behind them. Held on the executions in the evidence.",
    note="Trusted: harness forge/refcanon; outcome sets where the statement leaves freedom (broken hop may fail or stop at last good root; skipping hop may be followed or refused).", ref="§5 C02"),
 "C03": dict(cat="exploration", tech="offline history checker over recorded update-cycle histories sharing one datastore (pairwise rollback rule with key-change exemption + forward-never-refused rule)",
    text="All 81^2 two-cycle histories (both consistent-snapshot settings), lowering templates, all 81^3 three-cycle histories (thorough) and seeded 2..4-cycle histories with root publications are run against the real client over one datastore directory; the recorded (result, versions, trusted root) history is judged offline. Known finding: rollback of timestamp/snapshot accepted when the shipped root predates an online-key rotation (trusted root not persisted).",
    note="Exemption read permissively; versions 1..3; <=4 cycles.", ref="§5 C03"),
 "C14": dict(cat="exploration", tech="runtime monitor over two-cycle histories with root publications in between; oracle by construction (rotation kind x version relation)",
    text="Cycle 1 stores timestamp/snapshot at V in {3,2^31,2^63}; newer roots rotate timestamp/snapshot/both/neither keys (disjoint, add, remove, replace) over 1..3 hops; cycle 2 restarts at low versions. Rotated => must load; unrotated => must be refused; unrotated targets keys keep protecting targets.",
    note="Rotate-and-rotate-back and threshold-only changes are outside C14's quantifier.", ref="§5 C14"),
 "C04": dict(cat="exploration", tech="runtime monitor under a virtual clock (hook in Datastore::system_time); oracle by construction from forged expiry dates and the clock trajectory, incl. error class and reported role",
    text="Every subset of {root,timestamp,snapshot,targets} expired by 2s..400d at load time, load followed by read_target/save_target before/after the earliest expiry, backward clock jumps before the last operation of several trajectories, default/Safe/Unsafe enforcement, expired intermediate roots, a second update cycle on the same datastore before/after the earliest expiry; the real client runs with its single Utc::now() sample replaced by a thread-local virtual clock.",
    note="The boundary instant is never used; the real system clock is out of reach (hook).", ref="§5 C04"),
 "C05": dict(cat="exploration", tech="runtime monitor on load() outcome and fetch log for cross-state file combinations; oracle by construction from the served bytes (version/digest/length relations)",
    text="Timestamp of state a, snapshot of b, targets of c, delegated role of d for all 81 combinations x 4 pin configurations x both consistent-snapshot settings; same-state byte variants (re-formatted, shuffled, extra unknown signature) against pins of the original bytes; delegated role missing from the snapshot; fetch-log rule for version-prefixed names.",
    note="For delegated roles only version equality and listing are required by the statement.", ref="§5 C05"),
 "C06": dict(cat="fault_enumeration", tech="runtime monitor on every item yielded by read_target over a fault-injecting in-memory transport; oracle = SHA-256/length of what the caller received vs the signed entry, bytes pulled from the transport; thorough re-runs the quick case list under valgrind memcheck",
    text="Contents 0..64 KiB at role depth 0/1/2; for contents <= 256 B every bit flip, truncation point and error chunk index is enumerated, plus extensions, substitutions, endless streams, unlisted names; sampled positions and chunkings for large contents.",
    note="One loaded repository per worker and setting; faults applied per read.", ref="§5 C06"),
 "C07": dict(cat="exploration", tech="runtime monitor on load()/find_target/read_target for generated delegation trees; oracle = independent pre-order lookup with pruning, three-valued on ambiguous globs",
    text="Random trees (depth<=3, fan-out<=3) with literal/wildcard/hash-prefix path sets and up to 6 placements incl. names needing resolution and the same name listed by several roles with different digests; unauthorised listings must make load fail, otherwise the enforced digest must belong to the first authorised entry in pre-order.",
    note="Glob semantics evaluated under both readings; differing verdicts are inconclusive (counted).", ref="§5 C07"),
 "C08": dict(cat="fault_enumeration", tech="file-system monitor (tree snapshots of sandbox, parent and /) around every save_target call plus an observer of the destination path between every two transport chunks",
    text="All 9330 names over {vq7 . / \\ space %} up to length 5, random names up to 40 symbols, both prefix modes, with/without pre-existing destination; transfers in 1..8 chunks with a failure at every chunk position (transport error, bit flip, truncation, oversize). Rules: no change outside out/, destination never shows partial/unverified content, failed call leaves no file, success leaves exactly the verified file.",
    note="Leftover empty directories ignored; names rejected by TargetName::new counted separately.", ref="§5 C08"),
 "C09": dict(cat="fault_enumeration", tech="runtime monitor counting requests and bytes pulled per URL on an in-memory transport; bounds computed from limits / pinning document / published delegation graph; termination decided on the request counter",
    text="Configured limits {0,size-1,size,size+1,default,huge} and parent-pinned lengths for every role incl. a delegated role larger than targets.json; endless/oversized answers in 1/64/4096-byte chunks; chains of max_root_updates-1..+50 newer roots followed by nothing / the last root again / an older root under the next file name; delegation graphs tree/diamond/deep/self/mutual/3-cycle.",
    note="Pulled bytes may exceed the bound by one transport chunk.", ref="§5 C09"),
 "C11": dict(cat="exploration", tech="differential runtime monitor: CanonicalFormatter output vs an independent reference canonicaliser + strict canonical-bytes parser (injectivity), exhaustive small scope + seeded random, library and olpc-cjson binary",
    text="Every key set of size <=3 over an 8-symbol alphabet (prefix pairs, escaped characters, characters below the quote, pre-composed and decomposed é) under every insertion order, random values to depth 4 over all ASCII incl. control characters with floats injected, each also with shuffled member order and with integers written through narrower Rust integer types (and as integer map keys); the same through the olpc-cjson binary.",
    note="NFC known by construction only for the harness' atom alphabet.", ref="§5 C11"),
 "C12": dict(cat="exploration", tech="mutation-driven runtime monitor: every single-point mutation of each role's signed portion is served to the real client; oracle 'accepted => exposed content (Serialize view and typed accessors) == signed content', benign rewrites and respellings must stay acceptable, swapped roles must be refused; plus seeded compositions of 2-3 mutations; thorough re-runs the quick case list under valgrind memcheck",
    text="The single-point mutation space (scalar change x2, member delete/insert/duplicate-first/duplicate-last, array delete/duplicate/reorder/insert, type-tag swap) of six role documents carrying unknown members at every supported level is enumerated completely; plus benign rewrites, optional members a conforming signer may write, and role swaps under a shared key. Seven known findings (unknown members inside delegations / role entries, empty custom, same-type-tag swaps) are listed with exact signatures.",
    note="Identity judged on the canonical form; the roles map of root is not extended.", ref="§5 C12"),
 "C13": dict(cat="exploration", tech="runtime monitor on serde_json::from_slice::<Signed<Root|Targets>> and Key::key_id over mutated key tables; oracle: identifier = SHA-256 of the reference canonical form; thorough re-runs the quick case list under valgrind memcheck (hostile key material reaching the native key parsers)",
    text="Key tables of 1..4 keys of every type/encoding with 4 variants of unknown extra members, embedded in root and in delegations (two depths); ten identifier mutations at every position for tables up to 3 keys + seeded random tables; identifier stability across parse/serialise/parse and Key::from_str; three quarters of the cases are preceded on the same thread by a hostile document the parser refuses.",
    note="SHA-256 from aws-lc-rs.", ref="§5 C13"),
 "C16": dict(cat="exploration", tech="request-log and file-system monitor over four places (URLs, datastore, cache output, editor output) with a global injectivity map file name -> role name; role documents are handed out in request order so no encoding is assumed",
    text="Role names over a 12-symbol alphabet of path-significant characters: exhaustive to length 3 (quick) / 4 (thorough), special names (incl. one repository of roles named like each other's temporary/hidden files), random names to 64 symbols, 8 roles per repository; plain-entry rule on every request and every created file (tree snapshots of the parents), collision = two role names on one file.",
    note="Names whose encoded form exceeds NAME_MAX may be refused.", ref="§5 C16"),
 "C17": dict(cat="exploration", tech="differential runtime monitor: metadata before vs after load -> RepositoryEditor::from_repo -> sign -> write, member by member on the canonical form, plus re-load through the client",
    text="Random repositories with unknown members at the top level of every role's signed portion and custom data on targets are updated (new versions/expirations, 0..3 added targets); every old target entry, the delegations object, every unknown member of targets/snapshot/timestamp, every delegated role file (signed portion + signature list) and the snapshot entries of delegated roles must survive, and the result must load.",
    note="Target names URL-inert here.", ref="§5 C17"),
 "C19": dict(cat="exploration", tech="file-system and re-load monitor around Repository::cache: tree snapshots of the parent directory, re-load of the copy via file://, version equality, byte-wise read-back, root-chain presence, corrupted-source probe",
    text="Random repositories (delegations to depth 3, odd role names, target names of every URL class, both consistent-snapshot settings, root chains 1..3) served from memory are cached with every subset shape, with/without root chain, a quarter with one corrupted source target, a third with a target name that needs resolution. Known finding: names of 5 URL classes cannot be read back from the file:// copy.",
    note="The source is served from memory; what is judged is the copy.", ref="§5 C19"),
 "C18": dict(cat="fault_enumeration", tech="runtime monitor over the items yielded by HttpTransport::fetch and the request log of a scripted loopback HTTP server; suspected violations are re-run in isolation and reported only if they reproduce",
    text="Every fault script up to length 2/3 over {200 full, 200 stalled after k bytes, 500, 503, 403, 404, 410, 400, 416} with and without Accept-Ranges (literal and range-honouring flavours), tries 1..4, plus seeded scripts up to tries+2 for sizes 0..256 KiB. Rules: yielded bytes are a prefix of / equal to the resource, requests <= tries, Range only after an announcement, nothing after a terminal status, error kinds, completion when transient failures fit the budget.",
    note="Client timeout 700 ms; a time-out on a non-stalled response is inconclusive.", ref="§5 C18"),
 "C20": dict(cat="exploration", tech="process-level runtime monitor: the tuftool binary built from /repo is driven through seeded command sequences; after every invocation the file is compared with its previous bytes and judged by an independent parser/verifier",
    text="Sequences of 3..12 `tuftool root` invocations (init, add-key with RSA/Ed25519/ECDSA key files, remove-key, set-threshold, set-version up to 2^32, bump-version, expire, sign with key subsets / --ignore-threshold / --cross-sign). Rules: exit!=0 => file unchanged; one command in eight (and 22 templates) runs under a 512-byte file-size limit (write fault): exit != 0 => file byte-identical; exit 0 => parseable root, key ids = digest of key, content change => no signature left, plain successful sign => verifies under own root keys and threshold (independent aws-lc verification + Root::verify_role).",
    note="Cross-sign sequences exempt from the self-verification clause until the next content change.", ref="§5 C20"),
 "C15": dict(cat="fault_enumeration", tech="syscall-level fault injection with strace (-e inject=…:when=N on the one datastore thread of a child process) at EVERY datastore call of an update cycle, hit verified from the injected run's log; follow-up cycles in fresh processes as oracle",
    text="A baseline strace of one update cycle lists every openat/write/rename/unlink on the datastore directory; each is hit with SIGKILL, ENOSPC and EIO (thorough: fake short write, second kill); afterwards every genuine older repository state must be refused and the current one must load. Scenarios: re-check, timestamp-only upgrade, all-roles upgrade, consistent snapshots, delegated role, key-rotation cycle.",
    note="Process death and failing syscalls only (no power loss); a kill after call k is a kill at entry of call k+1.", ref="§5 C15"),
 "C10": dict(cat="exploration", tech="model-based runtime monitor: a random repository model is compiled into an editing program for the real RepositoryEditor; written files are re-parsed independently, the repository is loaded through file:// (and, one case in four, through tough's HTTP transport from a static loopback web server) and compared with the model, every target downloaded; cross-party update step with forged incoming metadata",
    text="Programs over delegation trees to depth 3 (1..3 mixed-algorithm keys, thresholds incl. unmeetable ones), 0..45 targets per role up to 32 KiB, names of every URL class, detours (add/remove/clear, overwritten versions), adequate/inadequate signing keys, copy and symlink publication, both consistent-snapshot settings; then TargetsEditor::from_repo/sign/write by the role holder and update_delegated_targets by the owner with genuine / under-signed / wrong-key / duplicate-signature / older incoming metadata. Known findings: target names of 5 URL classes cannot be fetched from the written file:// repository, 3 classes (and percent-encoded role file names) not over HTTP.",
    note="Programs the editor refuses are not judged; refusing genuine incoming metadata is an observation.", ref="§5 C10"),
}









PENDING_REASON = "monitor not built yet in this session (design in DESIGN.md §5); will be claimed once its check exists and is silent on the unchanged tree"

def main():
    props=[json.loads(l) for l in open('/verif/properties.jsonl')]
    hooks_commits=subprocess.run(['git','-C','/repo','log','--format=%h %s','--grep=verif-hooks'],capture_output=True,text=True).stdout.strip().splitlines()
    checks=[]; na=[]
    for p in props:
        i=p['id']
        if i in CLAIMED:
            c=CLAIMED[i]
            checks.append({
              "property_id": i,
              "quick_cmd": f"./check {i} --tier quick",
              "thorough_cmd": f"./check {i} --tier thorough",
              "evidence_file": f"/verif/evidence/{i}.json",
              "replay_cmd_template": f"./check {i} --replay {{path}}",
              "engine": "tough-verif",
              "level_claimed": {"category": c['cat'], "text": c['text'], "design_ref": c['ref']},
              "level_note": c['note'],
              "technique": c['tech'],
            })
        else:
            na.append({"property_id": i, "reason": PENDING_REASON})
    m={
     "version":1,
     "setup_cmd":"cd /verif/harness && CARGO_NET_OFFLINE=true CARGO_TARGET_DIR=/verif/.cache/target cargo build --offline --release --bin verif --bin c15_client && cd /repo && CARGO_PROFILE_DEV_DEBUG=0 CARGO_PROFILE_DEV_OPT_LEVEL=1 CARGO_NET_OFFLINE=true CARGO_TARGET_DIR=/verif/.cache/target-repo2 cargo build --offline -p tuftool --bin tuftool && CARGO_NET_OFFLINE=true CARGO_TARGET_DIR=/verif/.cache/target-repo cargo build --offline --release -p olpc-cjson --bin olpc-cjson && (cd /verif/harness/miri-cjson && CARGO_NET_OFFLINE=true CARGO_TARGET_DIR=/verif/.cache/target-miri cargo +nightly miri run --offline -- 1 0 || true)",
     "hooks":{
        "guard":"cargo feature `verif-hooks` on crate tough (off by default)",
        "enable":"harness/Cargo.toml depends on tough = { path = \"/repo/tough\", features = [\"http\", \"verif-hooks\"] }; ./check rebuilds from /repo's working tree on every invocation",
        "baseline_off_cmd":"cd /repo && cargo nextest run --workspace --no-fail-fast --tool-config-file pb:/w/lib/nextest.toml --profile pb --test-threads 8 --offline",
        "source_commits":[l.split()[0] for l in hooks_commits],
        "add_only": True,
     },
     "engines":[{"name":"tough-verif","path":"/verif/harness","serves_properties":sorted(CLAIMED),"kind_free_text":"Rust harness: generators, in-memory/HTTP transports, reference oracles, runtime monitors, evidence writer; driven by /verif/check"}],
     "checks":checks,
     "not_applicable":na,
     "notes":"Technique family: runtime monitoring. Every check runs the real code of /repo (rebuilt from the working tree) under generated/hostile/faulty workloads and judges recorded executions with an independent oracle. Exit 0 = held on everything explored (KNOWN-FINDING lines for findings listed in known_findings.txt), exit 1 + VIOLATION line = unlisted violation, exit 2 = broken harness/coverage floor missed (no verdict).",
    }
    json.dump(m,open('/verif/MANIFEST.json','w'),indent=1)
    print("claimed",len(checks),"pending",len(na))
main()
