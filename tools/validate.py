#!/opt/veriftools/pyvenv/bin/python
import json,jsonschema,glob,sys
jsonschema.validate(json.load(open('/verif/MANIFEST.json')),json.load(open('/root/.vp/MANIFEST.schema.json')))
es=json.load(open('/root/.vp/EVIDENCE.schema.json'))
bad=0
for f in sorted(glob.glob('/verif/evidence/*.json')):
    try:
        jsonschema.validate(json.load(open(f)),es)
    except Exception as e:
        bad+=1; print('INVALID',f,str(e)[:300])
print('manifest valid; evidence files checked:',len(glob.glob('/verif/evidence/*.json')),'invalid:',bad)
sys.exit(1 if bad else 0)
